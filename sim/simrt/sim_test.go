package simrt

import (
	"testing"
)

func TestUnbufferedRendezvous(t *testing.T) {
	for seed := uint64(1); seed < 200; seed++ {
		var got []int
		res := Run(Config{Seed: seed, Strategy: -1}, func() {
			ch := make(chan int)
			done := make(chan struct{})
			GoNamed("producer", func() {
				for i := 0; i < 3; i++ {
					Send(ch, i)
				}
				Close(ch)
			})
			GoNamed("consumer", func() {
				for {
					v, ok := Recv2(ch)
					if !ok {
						break
					}
					got = append(got, v)
				}
				Close(done)
			})
			Recv(done)
		})
		if res.End != "done" || len(got) != 3 || got[0] != 0 || got[2] != 2 {
			t.Fatalf("seed %d: end=%s got=%v blocked=%v", seed, res.End, got, res.Blocked())
		}
		if len(res.Races) != 0 {
			t.Fatalf("seed %d: unexpected races %v", seed, res.Races)
		}
	}
}

func TestDeadlockDetected(t *testing.T) {
	res := Run(Config{Seed: 1, Strategy: -1}, func() {
		ch := make(chan int)
		Send(ch, 1)
	})
	if res.End != "deadlock" {
		t.Fatalf("end=%s", res.End)
	}
}

func TestRaceDetected(t *testing.T) {
	found := 0
	for seed := uint64(1); seed < 50; seed++ {
		x := new(int)
		res := Run(Config{Seed: seed, Strategy: -1}, func() {
			var wg WaitGroup
			wg.Add(2)
			for i := 0; i < 2; i++ {
				GoNamed("w", func() {
					defer wg.Done()
					*W(x, "x|w|t.go:1") = 1
				})
			}
			wg.Wait()
			_ = *R(x, "x|main|t.go:2")
		})
		if len(res.Races) > 0 {
			found++
		}
	}
	if found != 49 {
		t.Fatalf("race found in %d of 49 runs", found)
	}
}

func TestMutexOrdersAccesses(t *testing.T) {
	for seed := uint64(1); seed < 100; seed++ {
		x := new(int)
		var mu Mutex
		res := Run(Config{Seed: seed, Strategy: -1}, func() {
			var wg WaitGroup
			wg.Add(3)
			for i := 0; i < 3; i++ {
				GoNamed("w", func() {
					defer wg.Done()
					mu.Lock()
					*W(x, "x|w|t.go:1") += 1
					mu.Unlock()
				})
			}
			wg.Wait()
		})
		if len(res.Races) != 0 || *x != 3 || res.End != "done" {
			t.Fatalf("seed %d: races=%v x=%d end=%s", seed, res.Races, *x, res.End)
		}
	}
}

func TestReplayIsExact(t *testing.T) {
	prog := func() {
		ch := make(chan int, 2)
		var wg WaitGroup
		for i := 0; i < 3; i++ {
			i := i
			wg.Add(1)
			GoNamed("p", func() { defer wg.Done(); Send(ch, i); Yield() })
		}
		GoNamed("c", func() {
			for i := 0; i < 3; i++ {
				Recv(ch)
			}
		})
		wg.Wait()
	}
	for seed := uint64(1); seed < 100; seed++ {
		a := Run(Config{Seed: seed, Strategy: -1}, prog)
		b := Run(Config{Replay: a.Tape}, prog)
		if a.TraceID != b.TraceID || a.Steps != b.Steps {
			t.Fatalf("seed %d: replay differs: %x/%d vs %x/%d", seed, a.TraceID, a.Steps, b.TraceID, b.Steps)
		}
	}
}

// A polling loop that yields on every iteration must terminate under every
// strategy, also the priority-based and fixed-order ones.
func TestPollingLoopTerminates(t *testing.T) {
	for strat := 0; strat < NumStrategies; strat++ {
		for seed := uint64(1); seed < 40; seed++ {
			flag := false
			var mu Mutex
			res := Run(Config{Seed: seed, Strategy: strat, StepCap: 5000}, func() {
				GoNamed("setter", func() {
					Yield()
					mu.Lock()
					flag = true
					mu.Unlock()
				})
				for {
					mu.Lock()
					f := flag
					mu.Unlock()
					if f {
						break
					}
					Gosched()
				}
			})
			if res.End != "done" {
				t.Fatalf("strategy %s seed %d: %s", StrategyNames[strat], seed, res.String())
			}
		}
	}
}

// Polling under a lock without ever yielding voluntarily: the fairness guard
// must let the other task in under the fixed-order strategies too.
func TestBusyPollingUnderLockTerminates(t *testing.T) {
	for strat := 0; strat < NumStrategies; strat++ {
		flag := false
		var mu Mutex
		res := Run(Config{Seed: 7, Strategy: strat, StepCap: 20000}, func() {
			GoNamed("setter", func() {
				mu.Lock()
				flag = true
				mu.Unlock()
			})
			for {
				mu.Lock()
				f := flag
				mu.Unlock()
				if f {
					break
				}
			}
		})
		if res.End != "done" {
			t.Fatalf("strategy %s: %s", StrategyNames[strat], res.String())
		}
	}
}

// Two tasks that poll with a non-blocking select must not starve a third one
// under any strategy.
func TestTwoPollersDoNotStarveProducer(t *testing.T) {
	for strat := 0; strat < NumStrategies; strat++ {
		for seed := uint64(1); seed < 30; seed++ {
			got := 0
			res := Run(Config{Seed: seed, Strategy: strat, StepCap: 20000}, func() {
				ch := make(chan int, 1)
				var wg WaitGroup
				for i := 0; i < 2; i++ {
					wg.Add(1)
					GoNamed("poller", func() {
						defer wg.Done()
						for {
							switch Select(true, RecvCase(ch)) {
							case 0:
								if _, ok := SelRecv2(ch); !ok {
									return
								}
								got++
							}
						}
					})
				}
				GoNamed("producer", func() {
					for i := 0; i < 3; i++ {
						Send(ch, i)
					}
					Close(ch)
				})
				wg.Wait()
			})
			if res.End != "done" || got != 3 {
				t.Fatalf("strategy %s seed %d: %s got=%d", StrategyNames[strat], seed, res.String(), got)
			}
		}
	}
}
