package main

import (
	"bytes"
	"encoding/binary"
	"encoding/json"
	"flag"
	"fmt"
	"os"
	"os/exec"
	"path/filepath"
	"regexp"
	"runtime"
	"runtime/debug"
	"runtime/pprof"
	"sort"
	"strings"
	"sync"
	"time"
)

var properties = map[string]Property{}

func register(p Property) { properties[p.ID()] = p }

// ReplayFile is the on-disk form of a (minimised) failing case.
type ReplayFile struct {
	Property  string     `json:"property"`
	Tier      string     `json:"tier"`
	Index     int        `json:"index"`
	Violation Violation  `json:"violation"`
	Case      Case       `json:"case"`
	TraceIDs  []string   `json:"trace_ids"`
	Program   any        `json:"program"`
	Schedules [][]string `json:"schedules"`
	Tasks     []any      `json:"tasks"`
	Faults    any        `json:"faults_fired"`
	MinSteps  int        `json:"minimiser_executions"`
	Original  *Case      `json:"original_case,omitempty"`
}

// WorkerReport is what one worker process hands back.
type WorkerReport struct {
	Cases       int                   `json:"cases"`
	NonTrivial  int                   `json:"nontrivial"`
	Steps       int64                 `json:"steps"`
	SimRuns     int64                 `json:"sim_runs"`
	Probes      map[string]int        `json:"probes"`
	ViolCount   map[string]int        `json:"viol_count"`
	Violations  map[string]*FoundViol `json:"violations"`
	Samples     []any                 `json:"samples"`
	KeysFile    string                `json:"keys_file"`
	HBKeysFile  string                `json:"hb_keys_file"`
	CannotDecid string                `json:"cannot_decide,omitempty"`
}

type FoundViol struct {
	Violation Violation `json:"violation"`
	Replay    string    `json:"replay"`
	Count     int       `json:"count"`
	FirstIdx  int       `json:"first_index"`
}

func main() {
	debug.SetMaxStack(512 << 20)
	if len(os.Args) < 2 {
		fmt.Fprintln(os.Stderr, "usage: simharness run|worker|replay ...")
		os.Exit(2)
	}
	switch os.Args[1] {
	case "run":
		cmdRun(os.Args[2:])
	case "worker":
		cmdWorker(os.Args[2:])
	case "replay":
		cmdReplay(os.Args[2:])
	case "trace":
		cmdTrace(os.Args[2:])
	default:
		fmt.Fprintln(os.Stderr, "unknown subcommand", os.Args[1])
		os.Exit(2)
	}
}

func mustProp(id string) Property {
	p, ok := properties[id]
	if !ok {
		fmt.Fprintln(os.Stderr, "unknown property", id)
		os.Exit(2)
	}
	return p
}

// ---- worker -----------------------------------------------------------------

func cmdWorker(args []string) {
	fs := flag.NewFlagSet("worker", flag.ExitOnError)
	prop := fs.String("prop", "", "")
	tier := fs.String("tier", "quick", "")
	seed := fs.Uint64("seed", 1, "")
	from := fs.Int("from", 0, "")
	to := fs.Int("to", 0, "")
	stride := fs.Int("stride", 1, "")
	outDir := fs.String("out", "", "")
	replayDir := fs.String("replays", "", "")
	wid := fs.Int("wid", 0, "")
	only := fs.String("only", "", "report only violations of this property id")
	fs.Parse(args)
	p := mustProp(*prop)
	if pf := os.Getenv("VERIF_PROFILE"); pf != "" && *wid == 0 {
		if f, err := os.Create(pf); err == nil {
			pprof.StartCPUProfile(f)
			defer pprof.StopCPUProfile()
		}
	}
	rep := &WorkerReport{Probes: map[string]int{}, ViolCount: map[string]int{}, Violations: map[string]*FoundViol{}}
	var keys, hbKeys []uint64
	minimised := 0
	for i := *from; i < *to; i += *stride {
		c := &Case{Seed: caseSeed(*seed, i)}
		announce(*outDir, *wid, i)
		res := runCase(p, c, *tier, i, false)
		rep.Cases++
		if res.NonTrivial {
			rep.NonTrivial++
			keys = append(keys, res.Key)
		}
		for _, s := range res.Sims {
			rep.Steps += int64(s.Steps)
			rep.SimRuns++
			if res.NonTrivial {
				hbKeys = append(hbKeys, res.ProgKey*0x9e3779b97f4a7c15^s.HBSig)
			}
		}
		for k, v := range res.Probes {
			rep.Probes[k] += v
		}
		if len(rep.Samples) < 2 && res.NonTrivial && (i/(*stride))%7 == 3 {
			rep.Samples = append(rep.Samples, sampleOf(res))
		}
		for _, v := range res.Violations {
			// A violation that belongs to another property (the queue workloads
			// of C04 and C05 share their oracles) is reported under ITS property
			// id, never dropped: the program shapes of one check are not run by
			// the other.
			if *only != "" && v.Property != *only {
				rep.Probes["violation_of_other_property_"+v.Property]++
			}
			rep.ViolCount[v.Key()]++
			if fv := rep.Violations[v.Key()]; fv != nil {
				fv.Count++
				continue
			}
			fv := &FoundViol{Violation: v, Count: 1, FirstIdx: i}
			rep.Violations[v.Key()] = fv
			if minimised < 12 {
				minimised++
				full := &Case{Seed: c.Seed, Prog: res.Prog, Scheds: res.Scheds, Replay: true}
				fv.Replay = minimiseAndWrite(p, full, v, *tier, i, *outDir)
				_ = replayDir
			}
		}
	}
	if len(rep.Samples) == 0 {
		c := &Case{Seed: caseSeed(*seed, *from)}
		rep.Samples = append(rep.Samples, sampleOf(runCase(p, c, *tier, *from, false)))
	}
	kf := filepath.Join(*outDir, fmt.Sprintf("keys-%d.bin", *wid))
	var buf bytes.Buffer
	binary.Write(&buf, binary.LittleEndian, keys)
	os.WriteFile(kf, buf.Bytes(), 0o644)
	rep.KeysFile = kf
	hf := filepath.Join(*outDir, fmt.Sprintf("hbkeys-%d.bin", *wid))
	var hbuf bytes.Buffer
	binary.Write(&hbuf, binary.LittleEndian, hbKeys)
	os.WriteFile(hf, hbuf.Bytes(), 0o644)
	rep.HBKeysFile = hf
	j, _ := json.Marshal(rep)
	os.WriteFile(filepath.Join(*outDir, fmt.Sprintf("report-%d.json", *wid)), j, 0o644)
}

func caseSeed(batch uint64, i int) uint64 {
	x := batch*0x9e3779b97f4a7c15 + uint64(i+1)*0xbf58476d1ce4e5b9
	x ^= x >> 31
	x *= 0x94d049bb133111eb
	x ^= x >> 29
	return x
}

// announce records which case a worker is about to run, so that a worker that
// dies (fatal stack overflow, runtime throw) can be attributed to its input.
func announce(dir string, wid, idx int) {
	if dir == "" {
		return
	}
	os.WriteFile(filepath.Join(dir, fmt.Sprintf("current-%d", wid)), []byte(fmt.Sprint(idx)), 0o644)
}

func sampleOf(res *CaseResult) any {
	m := map[string]any{"program": res.Desc}
	var scheds []any
	for _, s := range res.Sims {
		scheds = append(scheds, map[string]any{"end": s.End, "steps": s.Steps, "switches": s.Switches, "strategy": s.Strategy, "trace_id": fmt.Sprintf("%016x", s.TraceID), "choices": len(s.Tape)})
	}
	m["runs"] = scheds
	return m
}

// ---- minimiser ---------------------------------------------------------------

func hasViolation(res *CaseResult, v Violation) bool {
	for _, w := range res.Violations {
		if w.Property == v.Property && w.Class == v.Class && w.Sig == v.Sig {
			return true
		}
	}
	return false
}

func cloneCase(c *Case) *Case {
	n := &Case{Seed: c.Seed, Replay: true, Prog: append([]uint32{}, c.Prog...)}
	for _, s := range c.Scheds {
		n.Scheds = append(n.Scheds, append([]uint32{}, s...))
	}
	return n
}

func caseSize(c *Case) int {
	n := 0
	for _, x := range c.Prog {
		n += 1 + int(x)
	}
	for _, s := range c.Scheds {
		for _, x := range s {
			if x != 0 {
				n += 2 + int(x)
			}
		}
		n += len(s) / 8
	}
	return n
}

func minimise(p Property, c *Case, v Violation, tier string, index int, budget int) (*Case, int) {
	best := cloneCase(c)
	execs := 0
	// wall-clock bound as well: minimality of the replay file is a convenience,
	// the verdict never depends on it
	deadline := time.Now().Add(25 * time.Second)
	try := func(cand *Case) bool {
		if execs >= budget || time.Now().After(deadline) {
			execs = budget
			return false
		}
		execs++
		res := runCase(p, cand, tier, index, false)
		if hasViolation(res, v) {
			// keep the tapes actually consumed (drops unused tails)
			cand.Prog = res.Prog
			cand.Scheds = res.Scheds
			cand.Replay = true
			if caseSize(cand) <= caseSize(best) {
				best = cloneCase(cand)
				return true
			}
		}
		return false
	}
	tapes := func(c *Case) []*[]uint32 {
		ts := []*[]uint32{&c.Prog}
		for i := range c.Scheds {
			ts = append(ts, &c.Scheds[i])
		}
		return ts
	}
	improved := true
	for improved && execs < budget {
		improved = false
		for ti := 0; ti < len(tapes(best)); ti++ {
			// delete chunks
			n := len(*tapes(best)[ti])
			for size := n / 2; size >= 1 && execs < budget; size /= 2 {
				for start := 0; start+size <= len(*tapes(best)[ti]) && execs < budget; {
					cand := cloneCase(best)
					t := tapes(cand)[ti]
					*t = append((*t)[:start], (*t)[start+size:]...)
					if try(cand) {
						improved = true
					} else {
						start += size
					}
				}
			}
			// zero chunks, then single cells
			for size := 8; size >= 1 && execs < budget; size /= 2 {
				for start := 0; start < len(*tapes(best)[ti]) && execs < budget; start += size {
					cand := cloneCase(best)
					t := tapes(cand)[ti]
					changed := false
					for k := start; k < start+size && k < len(*t); k++ {
						if (*t)[k] != 0 {
							(*t)[k] = 0
							changed = true
						}
					}
					if changed && try(cand) {
						improved = true
					}
				}
			}
			// lower single values
			for k := 0; k < len(*tapes(best)[ti]) && execs < budget; k++ {
				cur := (*tapes(best)[ti])[k]
				for _, nv := range []uint32{cur / 2, cur - 1} {
					if cur == 0 || nv >= cur {
						continue
					}
					cand := cloneCase(best)
					if k >= len(*tapes(cand)[ti]) {
						break
					}
					(*tapes(cand)[ti])[k] = nv
					if try(cand) {
						improved = true
						break
					}
				}
			}
		}
	}
	return best, execs
}

func minimiseAndWrite(p Property, c *Case, v Violation, tier string, index int, dir string) string {
	// The recorded tapes must reproduce before anything else is attempted.
	res := runCase(p, cloneCase(c), tier, index, false)
	if !hasViolation(res, v) {
		fmt.Fprintf(os.Stderr, "INTERNAL: violation %s did not reproduce from its own tapes (seed %d)\n", v.Key(), c.Seed)
		os.Exit(2)
	}
	best, execs := minimise(p, c, v, tier, index, 1500)
	return writeReplay(p, best, c, v, tier, index, dir, execs)
}

func writeReplay(p Property, best, orig *Case, v Violation, tier string, index int, dir string, execs int) string {
	res := runCase(p, cloneCase(best), tier, index, true)
	rf := &ReplayFile{Property: p.ID(), Tier: tier, Index: index, Violation: v, Case: *best, MinSteps: execs, Program: res.Desc, Faults: res.Probes}
	for _, w := range res.Violations {
		if w.Key() == v.Key() {
			rf.Violation = w
		}
	}
	for _, s := range res.Sims {
		rf.TraceIDs = append(rf.TraceIDs, fmt.Sprintf("%016x", s.TraceID))
		var ev []string
		for _, e := range s.Events {
			name := fmt.Sprint(e.Task)
			if e.Task < len(s.Tasks) {
				name = s.Tasks[e.Task].Name
			}
			ev = append(ev, fmt.Sprintf("%d:%s:%s#%d", e.Step, name, e.Op, e.Obj))
		}
		rf.Schedules = append(rf.Schedules, ev)
		for _, t := range s.Tasks {
			rf.Tasks = append(rf.Tasks, t)
		}
	}
	if orig != nil && caseSize(orig) != caseSize(best) {
		rf.Original = orig
	}
	os.MkdirAll(dir, 0o755)
	name := filepath.Join(dir, fmt.Sprintf("%s-%016x-i%d.json", p.ID(), hashString(v.Key()), index))
	j, _ := json.MarshalIndent(rf, "", " ")
	os.WriteFile(name, j, 0o644)
	return name
}

// ---- replay ------------------------------------------------------------------

func cmdReplay(args []string) {
	fs := flag.NewFlagSet("replay", flag.ExitOnError)
	verbose := fs.Bool("v", false, "")
	fs.Parse(args)
	if fs.NArg() < 1 {
		fmt.Fprintln(os.Stderr, "replay <file>")
		os.Exit(2)
	}
	b, err := os.ReadFile(fs.Arg(0))
	if err != nil {
		fmt.Fprintln(os.Stderr, err)
		os.Exit(2)
	}
	var rf ReplayFile
	if err := json.Unmarshal(b, &rf); err != nil {
		fmt.Fprintln(os.Stderr, err)
		os.Exit(2)
	}
	p := mustProp(rf.Property)
	c := rf.Case
	c.Replay = true
	res := runCase(p, &c, rf.Tier, rf.Index, true)
	var ids []string
	for _, s := range res.Sims {
		ids = append(ids, fmt.Sprintf("%016x", s.TraceID))
	}
	same := strings.Join(ids, ",") == strings.Join(rf.TraceIDs, ",")
	fmt.Printf("replay: property=%s trace_ids=%s identical_trace=%v\n", rf.Property, strings.Join(ids, ","), same)
	if *verbose {
		j, _ := json.MarshalIndent(res.Desc, "", " ")
		fmt.Println(string(j))
		for _, s := range res.Sims {
			fmt.Println(s.String())
			for _, e := range s.Events {
				fmt.Printf("  %4d task=%d %s obj#%d\n", e.Step, e.Task, e.Op, e.Obj)
			}
		}
	}
	for _, v := range res.Violations {
		fmt.Printf("  violation: %s: %s\n", v.Key(), v.Msg)
	}
	if hasViolation(res, rf.Violation) {
		fmt.Printf("VIOLATION property=%s replay=%s\n", rf.Property, fs.Arg(0))
		os.Exit(1)
	}
	fmt.Println("replay: the recorded violation did not reproduce on this tree")
	os.Exit(0)
}

// cmdTrace prints the event-hash of N seeds (determinism self-test).
func cmdTrace(args []string) {
	fs := flag.NewFlagSet("trace", flag.ExitOnError)
	prop := fs.String("prop", "", "")
	tier := fs.String("tier", "quick", "")
	seed := fs.Uint64("seed", 1, "")
	n := fs.Int("n", 40, "")
	fs.Parse(args)
	p := mustProp(*prop)
	stride := p.Cases(*tier) / *n
	if stride < 1 {
		stride = 1
	}
	for k := 0; k < *n; k++ {
		i := k * stride // spread over the whole case space (systematic and generated parts)
		res := runCase(p, &Case{Seed: caseSeed(*seed, i)}, *tier, i, false)
		var ids []string
		for _, s := range res.Sims {
			ids = append(ids, fmt.Sprintf("%016x/%s/%d", s.TraceID, s.End, s.Steps))
		}
		var vs []string
		for _, v := range res.Violations {
			vs = append(vs, v.Key())
		}
		sort.Strings(vs)
		fmt.Printf("%d %x %s %s\n", i, jsonKey(res.Desc), strings.Join(ids, ","), strings.Join(vs, ","))
	}
}

// ---- run (parent) --------------------------------------------------------------

type KnownFinding struct {
	Property string `json:"property"`
	Class    string `json:"class"`
	Sig      string `json:"sig"`
	SigRegex string `json:"sig_regex,omitempty"` // alternative to sig: anchored regular expression
	Status   string `json:"status"`              // known | fixed
	Commit   string `json:"commit,omitempty"`
	What     string `json:"what"`
}

func cmdRun(args []string) {
	fs := flag.NewFlagSet("run", flag.ExitOnError)
	prop := fs.String("prop", "", "")
	tier := fs.String("tier", "quick", "")
	seed := fs.Uint64("seed", 1, "")
	workers := fs.Int("workers", runtime.NumCPU(), "")
	evidence := fs.String("evidence", "", "")
	replays := fs.String("replays", "", "")
	known := fs.String("known", "", "")
	instr := fs.String("instr-stats", "", "")
	cases := fs.Int("cases", 0, "override the number of cases")
	fs.Parse(args)
	p := mustProp(*prop)
	n := p.Cases(*tier)
	if *cases > 0 {
		n = *cases
	}
	start := time.Now()
	tmp, err := os.MkdirTemp("", "simharness-")
	if err != nil {
		fmt.Fprintln(os.Stderr, err)
		os.Exit(2)
	}
	defer os.RemoveAll(tmp)
	exit := func(code int) {
		os.RemoveAll(tmp)
		os.Exit(code)
	}
	w := *workers
	if w > n {
		w = n
	}
	if w < 1 {
		w = 1
	}
	var wg sync.WaitGroup
	fails := make([]string, w)
	for i := 0; i < w; i++ {
		wg.Add(1)
		go func(i int) {
			defer wg.Done()
			cmd := exec.Command(os.Args[0], "worker", "-prop", *prop, "-tier", *tier, "-seed", fmt.Sprint(*seed),
				"-from", fmt.Sprint(i), "-to", fmt.Sprint(n), "-stride", fmt.Sprint(w), "-out", tmp, "-replays", *replays, "-wid", fmt.Sprint(i), "-only", *prop)
			var stderr bytes.Buffer
			cmd.Stderr = &stderr
			cmd.Stdout = &stderr
			if err := cmd.Run(); err != nil {
				cur, _ := os.ReadFile(filepath.Join(tmp, fmt.Sprintf("current-%d", i)))
				msg := stderr.String()
				if len(msg) > 3000 {
					msg = msg[:1500] + "\n...\n" + msg[len(msg)-1500:]
				}
				fails[i] = fmt.Sprintf("worker %d died (%v) while running case index %s:\n%s", i, err, string(cur), msg)
			}
		}(i)
	}
	wg.Wait()
	total := &WorkerReport{Probes: map[string]int{}, ViolCount: map[string]int{}, Violations: map[string]*FoundViol{}}
	var allKeys, allHB []uint64
	exit2 := false
	for i := 0; i < w; i++ {
		if fails[i] != "" {
			// a dead worker is handled by the property (C12 treats it as a
			// violation attributed to the announced input); default: cannot decide
			if h, ok := p.(interface {
				WorkerDied(tier string, seed uint64, msg string) *Violation
			}); ok {
				if v := h.WorkerDied(*tier, *seed, fails[i]); v != nil {
					total.Violations[v.Key()] = &FoundViol{Violation: *v, Count: 1}
					total.ViolCount[v.Key()]++
					continue
				}
			}
			fmt.Fprintln(os.Stderr, "CANNOT-DECIDE:", fails[i])
			exit2 = true
			continue
		}
		b, err := os.ReadFile(filepath.Join(tmp, fmt.Sprintf("report-%d.json", i)))
		if err != nil {
			fmt.Fprintln(os.Stderr, "CANNOT-DECIDE: missing worker report", i)
			exit2 = true
			continue
		}
		var r WorkerReport
		json.Unmarshal(b, &r)
		total.Cases += r.Cases
		total.NonTrivial += r.NonTrivial
		total.Steps += r.Steps
		total.SimRuns += r.SimRuns
		for k, v := range r.Probes {
			total.Probes[k] += v
		}
		for k, v := range r.ViolCount {
			total.ViolCount[k] += v
		}
		for k, v := range r.Violations {
			if old := total.Violations[k]; old == nil || (old.Replay == "" && v.Replay != "") || (v.Replay != "" && v.FirstIdx < old.FirstIdx) {
				total.Violations[k] = v
			}
		}
		if len(total.Samples) < 6 {
			total.Samples = append(total.Samples, r.Samples...)
		}
		kb, _ := os.ReadFile(r.KeysFile)
		ks := make([]uint64, len(kb)/8)
		binary.Read(bytes.NewReader(kb), binary.LittleEndian, ks)
		allKeys = append(allKeys, ks...)
		hb, _ := os.ReadFile(r.HBKeysFile)
		hs := make([]uint64, len(hb)/8)
		binary.Read(bytes.NewReader(hb), binary.LittleEndian, hs)
		allHB = append(allHB, hs...)
	}
	if exit2 {
		exit(2)
	}
	sort.Slice(allKeys, func(i, j int) bool { return allKeys[i] < allKeys[j] })
	distinctKeys := 0
	for i, k := range allKeys {
		if i == 0 || k != allKeys[i-1] {
			distinctKeys++
		}
	}
	sort.Slice(allHB, func(i, j int) bool { return allHB[i] < allHB[j] })
	distinctHB := 0
	for i, k := range allHB {
		if i == 0 || k != allHB[i-1] {
			distinctHB++
		}
	}
	// known findings
	var kfs []KnownFinding
	if *known != "" {
		if b, err := os.ReadFile(*known); err == nil {
			if err := json.Unmarshal(b, &kfs); err != nil {
				fmt.Fprintln(os.Stderr, "CANNOT-DECIDE: bad known-findings file:", err)
				exit(2)
			}
		}
	}
	isKnown := func(v Violation) *KnownFinding {
		for i := range kfs {
			k := &kfs[i]
			if k.Status != "known" || k.Property != v.Property || k.Class != v.Class {
				continue
			}
			if k.SigRegex != "" {
				if re, err := regexp.Compile("^(?:" + k.SigRegex + ")$"); err == nil && re.MatchString(v.Sig) {
					return k
				}
				continue
			}
			if k.Sig == v.Sig {
				return k
			}
		}
		return nil
	}
	var vkeys []string
	for k := range total.Violations {
		vkeys = append(vkeys, k)
	}
	sort.Strings(vkeys)
	nviol := 0
	var knownMatched []string
	for _, k := range vkeys {
		fv := total.Violations[k]
		if kf := isKnown(fv.Violation); kf != nil {
			fmt.Printf("KNOWN-FINDING: property=%s %s [%s %s] (seen in %d cases this run)\n", fv.Violation.Property, kf.What, fv.Violation.Class, fv.Violation.Sig, total.ViolCount[k])
			knownMatched = append(knownMatched, k)
			continue
		}
		nviol++
		if fv.Replay != "" && *replays != "" {
			os.MkdirAll(*replays, 0o755)
			dst := filepath.Join(*replays, fmt.Sprintf("%s-%016x.json", fv.Violation.Property, hashString(k)))
			if b, err := os.ReadFile(fv.Replay); err == nil && os.WriteFile(dst, b, 0o644) == nil {
				fv.Replay = dst
			}
		}
		fmt.Printf("violation: %s\n  %s\n  cases=%d\n", k, fv.Violation.Msg, total.ViolCount[k])
		fmt.Printf("VIOLATION property=%s replay=%s\n", fv.Violation.Property, fv.Replay)
	}
	wall := time.Since(start).Seconds()
	if *evidence != "" {
		writeEvidence(p, *evidence, *tier, *seed, total, distinctKeys, distinctHB, wall, nviol, knownMatched, *instr, w)
	}
	fmt.Printf("%s %s: cases=%d nontrivial=%d distinct=%d sim_runs=%d steps=%d wall=%.1fs violations=%d known=%d\n",
		*prop, *tier, total.Cases, total.NonTrivial, distinctKeys, total.SimRuns, total.Steps, wall, nviol, len(knownMatched))
	if nviol > 0 {
		exit(1)
	}
}

func writeEvidence(p Property, path, tier string, seed uint64, t *WorkerReport, distinct int, distinctHB int, wall float64, nviol int, known []string, instrStats string, workers int) {
	meta := p.Meta()
	faults := map[string]int{}
	probes := map[string]int{}
	isFault := map[string]bool{}
	for _, f := range meta.FaultKinds {
		isFault[f] = true
		faults[f] = 0
	}
	for k, v := range t.Probes {
		if isFault[k] {
			faults[k] = v
		} else {
			probes[k] = v
		}
	}
	var instr any
	if instrStats != "" {
		if b, err := os.ReadFile(instrStats); err == nil {
			json.Unmarshal(b, &instr)
		}
	}
	perHour := 0.0
	if wall > 0 {
		perHour = float64(t.Cases) / wall * 3600
	}
	stepsPerRun := 0.0
	if t.SimRuns > 0 {
		stepsPerRun = float64(t.Steps) / float64(t.SimRuns)
	}
	cov := map[string]any{
		"evaluations":                        t.Cases,
		"distinct_nontrivial":                distinct,
		"rule":                               meta.Rule,
		"samples":                            t.Samples,
		"simulated_runs":                     t.SimRuns,
		"cases_per_hour":                     int64(perHour),
		"seeds_per_hour":                     int64(perHour),
		"simulated_time":                     fmt.Sprintf("%d scheduler steps in total (the system has no clock; simulated time is the logical step counter), %.1f per simulated run", t.Steps, stepsPerRun),
		"simulated_steps_total":              t.Steps,
		"fault_kinds_fired":                  faults,
		"probes":                             probes,
		"fault_kinds_zero_note":              "a fault kind with count 0 could not arise on this tree: channel_replaced_* needs code that replaces the queue's channel (the repaired RemoveAll no longer does); clock_jumps are drawn only when the code under test reads the clock (the shipped code never does); close_while_sender_parked cannot happen because programs close only after their producers finished; rmw_split_preemptions needs a read-modify-write of a variable that two tasks touch; parser_died_with_tokens_in_flight needs a rejected input (C12)",
		"distinct_happens_before_signatures": distinctHB,
		"distinct_hb_measure":                "distinct (program, happens-before signature) pairs over all simulated runs of non-trivial cases; the signature hashes, per synchronisation object, the order in which tasks operated on it - schedules that differ only in the order of independent operations share one signature",
		"distinct_measure":                   "distinct (program, schedule-trace) pairs among non-trivial cases; a trace id is the FNV-1a hash of the sequence of scheduling decisions (task, operation, object ordinal)",
		"real_components":                    meta.Real,
		"stub_components":                    meta.Stub,
		"instrumentation":                    instr,
		"worker_processes":                   workers,
		"known_findings_matched":             known,
		"exhaustive":                         false,
		"nontrivial_cases":                   t.NonTrivial,
	}
	ev := map[string]any{
		"property_id": p.ID(),
		"tier":        tier,
		"seed":        seed,
		"level":       "exploration",
		"coverage":    cov,
		"assumptions": meta.Assumptions,
		"wall_s":      wall,
		"violations":  nviol,
	}
	os.MkdirAll(filepath.Dir(path), 0o755)
	j, _ := json.MarshalIndent(ev, "", " ")
	os.WriteFile(path, j, 0o644)
}
