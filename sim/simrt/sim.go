// Package simrt is the deterministic simulation runtime.
//
// Instrumented library code (see /verif/tools/instrument) and the harness call
// into this package at every synchronisation operation.  While a simulation is
// running, every goroutine that executes library code is a *task*; exactly one
// task runs at a time (it "holds the baton") and every decision about who runs
// next is a bounded draw recorded on a choice tape, so that one tape is one
// exactly repeatable execution.  When no simulation is installed every
// primitive falls through to the real operation.
package simrt

import (
	"fmt"
	"runtime"
	"runtime/debug"
	"sort"
	"strings"
	"time"
	"unsafe"
)

// OpKind identifies the operation a task is about to perform.
type OpKind uint8

const (
	OpStart OpKind = iota
	OpYield
	OpLock
	OpRLock
	OpSend
	OpRecv
	OpClose
	OpSelect
	OpWait
	OpAccess
	OpEnd
	OpUnlock
	OpDone
	OpSpawn
)

var opNames = [...]string{"start", "yield", "lock", "rlock", "send", "recv", "close", "select", "wait", "access", "end", "unlock", "done", "spawn"}

func (k OpKind) String() string { return opNames[k] }

// Strategies for choosing the next task (record mode only; a replayed tape
// already contains the choices).
const (
	StratRandom = iota
	StratPCT
	StratSticky
	StratStarve
	StratLowest  // always the enabled task with the lowest id
	StratHighest // always the enabled task with the highest id
	NumStrategies
)

var StrategyNames = [...]string{"random", "pct", "sticky", "starve", "lowest-id-first", "highest-id-first"}

// Config describes one simulated run.
type Config struct {
	Seed          uint64   // seed of the schedule PRNG (record mode) and of RandReader
	RandSeed      uint64   // non-zero: seed of RandReader instead of Seed
	Replay        []uint32 // non-nil: replay these choices instead of drawing them
	Strategy      int      // one of Strat*; -1 draws one from Seed
	PCTDepth      int      // 0: drawn from Seed (1..3)
	StepCap       int      // 0: 20000
	AccessPreempt float64  // probability that an eligible shared-variable access is a preemption point
	ClockJump     float64  // probability that an observation of the clock (time.Now/Since) finds it jumped ahead by 1 ms .. 100 s
	AccessStall   float64  // probability that, right after an access to a variable another task has touched, the task is put to sleep for a drawn number of steps (race-directed scheduling: lets the other tasks run on without acquiring anything this task releases later)
	KeepEvents    bool     // keep the decoded event list in the result
	Watchdog      time.Duration
}

// Event is one scheduling decision (or a non-blocking synchronisation action).
type Event struct {
	Step int    `json:"step"`
	Task int    `json:"task"`
	Op   string `json:"op"`
	Obj  int    `json:"obj"` // first-seen ordinal of the object, 0 if none
}

// TaskInfo is the post-mortem description of a task.
type TaskInfo struct {
	ID       int    `json:"id"`
	Name     string `json:"name"`
	Finished bool   `json:"finished"`
	Panicked bool   `json:"panicked,omitempty"`
	PanicVal any    `json:"-"`
	PanicStr string `json:"panic,omitempty"`
	Stack    string `json:"stack,omitempty"`
	Pending  string `json:"pending,omitempty"` // what an unfinished task is parked on
	// ActiveAfterMark: the task initiated an operation (synchronisation or tracked
	// access) after the harness called Mark()
	ActiveAfterMark bool   `json:"active_after_mark,omitempty"`
	PendKind        OpKind `json:"-"`
	PendObj         int    `json:"-"`
}

// Result is what a run produced.
type Result struct {
	End      string // "done", "deadlock", "stepcap", "watchdog"
	Steps    int
	Switches int
	Tape     []uint32
	TraceID  uint64
	HBSig    uint64
	Events   []Event
	Tasks    []TaskInfo
	Races    []Race
	Probes   map[string]int
	Strategy string
}

type op struct {
	kind    OpKind
	obj     int // ordinal
	enabled func() bool
	srcVar  unsafe.Pointer // variable the channel operand was read from (stale-window probe)
	ch      *chanState
}

type task struct {
	id        int
	name      string
	wake      chan struct{}
	pend      op
	vc        vclock
	abort     bool
	started   bool
	returned  bool
	finished  bool
	panicked  bool
	panicVal  any
	stack     string
	lastRead  unsafe.Pointer
	prio      int
	fn        func()
	key       uint64
	randReads int
	label     string
	// unbuffered rendezvous
	sendVal       any
	sendTaken     bool
	xferVal       any
	xferReady     bool
	condWake      bool
	selCases      []SelCase
	selForced     int
	stall         int   // scheduling decisions this task still sits out (if others can run)
	stepAside     bool  // voluntary yield: sits out the next decision if others can run
	stepAsideNext bool  // the next scheduling point of this task is a step-aside (after a select that took its default, a failed TryLock)
	lastInit      int64 // event sequence number at which this task last INITIATED an operation
	waited        int   // decisions for which this task was enabled and not chosen
}

// Sim is the state of the running simulation.
type Sim struct {
	cfg         Config
	gen         uint64
	tasks       []*task
	cur         *task
	rng         splitmix
	tape        []uint32
	tapePos     int
	replay      bool
	steps       int
	switches    int
	seq         int64
	hash        uint64
	events      []Event
	objHash     map[int]uint64
	nextOrd     int
	chans       map[unsafe.Pointer]*chanState
	shadow      map[unsafe.Pointer]*shadowVar
	atomVC      map[unsafe.Pointer]vclock
	elems       map[unsafe.Pointer]*shadowVar // slice elements
	slab        []shadowVar
	races       []Race
	raceSeen    map[string]bool
	probes      map[string]int
	done        chan struct{}
	abortDone   chan struct{}
	end         string
	aborting    bool
	strategy    int
	consecutive int           // decisions in a row that went to the same task
	markSeq     int64         // set by Mark()
	lastPoll    int           // step of the last voluntary yield / polling step-aside
	now         time.Duration // simulated time beyond the event counter (sleeps and jumps)
	// strategy state
	pctChange []int
	pctLow    int
	stickyP   float64
	starveID  int
	starveA   int
	starveB   int
}

// S is the installed simulation, nil outside a simulated run.
var S *Sim

var genCounter uint64

const fnvOffset = 14695981039346656037
const fnvPrime = 1099511628211

func (s *Sim) mixHash(vals ...uint64) {
	h := s.hash
	for _, v := range vals {
		for i := 0; i < 8; i++ {
			h ^= (v >> (8 * uint(i))) & 0xff
			h *= fnvPrime
		}
	}
	s.hash = h
}

func (s *Sim) logEvent(t int, k OpKind, obj int) {
	s.mixHash(uint64(t), uint64(k), uint64(obj))
	if obj != 0 {
		h := s.objHash[obj]
		if h == 0 {
			h = fnvOffset
		}
		h ^= uint64(t)<<8 | uint64(k)
		h *= fnvPrime
		s.objHash[obj] = h
	}
	if s.cfg.KeepEvents {
		s.events = append(s.events, Event{Step: s.steps, Task: t, Op: k.String(), Obj: obj})
	}
}

// draw returns a value in [0,n) — from the tape when replaying, otherwise the
// value computed by pick() is appended to the tape.
func (s *Sim) draw(n int, pick func() int) int {
	if n <= 0 {
		return 0
	}
	if s.replay {
		v := 0
		if s.tapePos < len(s.tape) {
			v = int(s.tape[s.tapePos])
		}
		s.tapePos++
		return v % n
	}
	v := pick()
	if v < 0 || v >= n {
		v = 0
	}
	s.tape = append(s.tape, uint32(v))
	return v
}

// Run executes root as task 0 under the simulator and returns what happened.
func Run(cfg Config, root func()) *Result {
	if S != nil {
		panic("simrt: nested Run")
	}
	if cfg.StepCap == 0 {
		cfg.StepCap = 20000
	}
	if cfg.Watchdog == 0 {
		cfg.Watchdog = 20 * time.Second
	}
	genCounter++
	s := &Sim{
		cfg:       cfg,
		gen:       genCounter,
		hash:      fnvOffset,
		objHash:   map[int]uint64{},
		chans:     map[unsafe.Pointer]*chanState{},
		shadow:    map[unsafe.Pointer]*shadowVar{},
		elems:     map[unsafe.Pointer]*shadowVar{},
		raceSeen:  map[string]bool{},
		probes:    map[string]int{},
		done:      make(chan struct{}, 1),
		abortDone: make(chan struct{}, 1),
	}
	s.rng = splitmix{x: cfg.Seed ^ 0x5851f42d4c957f2d}
	if cfg.Replay != nil {
		s.replay = true
		s.tape = cfg.Replay
	}
	s.strategy = cfg.Strategy
	if s.strategy < 0 {
		s.strategy = int(s.rng.next() % 4) // random, pct, sticky, starve
	}
	switch s.strategy {
	case StratPCT:
		d := cfg.PCTDepth
		if d == 0 {
			d = 1 + int(s.rng.next()%3)
		}
		k := 40 + int(s.rng.next()%120)
		for i := 0; i < d-1; i++ {
			s.pctChange = append(s.pctChange, 1+int(s.rng.next()%uint64(k)))
		}
		s.pctLow = 0
	case StratSticky:
		s.stickyP = 0.5 + float64(s.rng.next()%45)/100
	case StratStarve:
		s.starveID = int(s.rng.next() % 6)
		s.starveA = int(s.rng.next() % 40)
		s.starveB = s.starveA + 5 + int(s.rng.next()%200)
	}
	S = s
	s.spawn("main", root, nil)
	s.schedule(nil, false)
	timedOut := false
	select {
	case <-s.done:
	case <-time.After(cfg.Watchdog):
		timedOut = true
	}
	res := &Result{}
	if timedOut {
		// A task is running real code without reaching a simrt operation.
		// Nothing can be cleaned up safely; the caller must exit the process.
		res.End = "watchdog"
		res.Steps = s.steps
		res.Strategy = StrategyNames[s.strategy]
		return res
	}
	// Post-mortem description before unwinding the parked tasks.
	for _, t := range s.tasks {
		ti := TaskInfo{ID: t.id, Name: t.name, Finished: t.finished, Panicked: t.panicked, PanicVal: t.panicVal, Stack: t.stack}
		ti.ActiveAfterMark = s.markSeq > 0 && t.lastInit > s.markSeq
		if t.panicked {
			ti.PanicStr = fmt.Sprint(t.panicVal)
		}
		if !t.finished {
			ti.Pending = fmt.Sprintf("%s obj#%d", t.pend.kind, t.pend.obj)
			ti.PendKind = t.pend.kind
			ti.PendObj = t.pend.obj
		}
		res.Tasks = append(res.Tasks, ti)
	}
	s.aborting = true
	for _, t := range s.tasks {
		if !t.finished {
			t.abort = true
			s.cur = t
			t.wake <- struct{}{}
			<-s.abortDone
		}
	}
	S = nil
	res.End = s.end
	res.Steps = s.steps
	res.Switches = s.switches
	res.Tape = s.tape
	if s.replay && s.tapePos < len(s.tape) {
		res.Tape = s.tape[:s.tapePos]
	}
	res.TraceID = s.hash
	var hb uint64
	for o, h := range s.objHash {
		hb += h * (uint64(o)*2 + 1)
	}
	res.HBSig = hb
	res.Events = s.events
	res.Races = s.races
	res.Probes = s.probes
	res.Strategy = StrategyNames[s.strategy]
	return res
}

func (s *Sim) spawn(name string, f func(), parent *task) *task {
	t := &task{id: len(s.tasks), name: name, wake: make(chan struct{}, 1), fn: f, selForced: -1}
	if name == "" {
		t.name = fmt.Sprintf("go#%d", t.id)
		t.key = uint64(t.id)
	} else {
		h := uint64(fnvOffset)
		for i := 0; i < len(name); i++ {
			h ^= uint64(name[i])
			h *= fnvPrime
		}
		t.key = h
	}
	t.pend = op{kind: OpStart}
	if parent != nil {
		t.vc = parent.vc.copy()
		parent.vc.tick(parent.id)
	}
	t.vc.tick(t.id)
	if !s.replay {
		t.prio = 1000 + int(s.rng.next()%100000)
	}
	s.tasks = append(s.tasks, t)
	go s.taskMain(t)
	return t
}

func (s *Sim) taskMain(t *task) {
	defer func() {
		if t.abort {
			s.abortDone <- struct{}{}
			return
		}
		if !t.returned {
			r := recover()
			t.panicked = true
			t.panicVal = r
			st := string(debug.Stack())
			if len(st) > 6000 {
				st = st[:6000]
			}
			t.stack = st
		}
		t.finished = true
		t.vc.tick(t.id)
		s.logEvent(t.id, OpEnd, 0)
		s.schedule(t, false)
	}()
	<-t.wake
	if t.abort {
		return
	}
	t.started = true
	t.fn()
	t.returned = true
}

// yield parks the current task with its pending operation and returns when the
// scheduler has chosen it and the operation cannot block.
func (s *Sim) yield(t *task) {
	t.lastInit = s.seq
	if t.stepAsideNext {
		t.stepAside = true
		t.stepAsideNext = false
	}
	s.schedule(t, true)
}

func (s *Sim) finishRun(reason string) {
	s.end = reason
	s.done <- struct{}{}
}

// schedule picks the next task.  from is the calling task (nil for the driver);
// park says whether the caller wants to continue afterwards (a yielding task)
// or is gone (a finished task, the driver).
func (s *Sim) schedule(from *task, park bool) {
	s.steps++
	s.seq++
	if s.steps > s.cfg.StepCap {
		s.finishRun("stepcap")
		if park {
			s.parkForever(from)
		}
		return
	}
	var enabled []*task
	unfinished := 0
	for _, t := range s.tasks {
		if t.finished {
			continue
		}
		unfinished++
		if t.pend.enabled == nil || t.pend.enabled() {
			enabled = append(enabled, t)
		}
	}
	// stalled tasks, and the task that just yielded voluntarily, sit out while
	// anybody else can run
	if len(enabled) > 1 {
		var awake []*task
		for _, t := range enabled {
			if t.stall <= 0 && !(t == from && t.stepAside) {
				awake = append(awake, t)
			}
		}
		if len(awake) > 0 && len(awake) < len(enabled) {
			s.probes["stalled_after_access_steps"]++
			enabled = awake
		}
	}
	for _, t := range s.tasks {
		if t.stall > 0 {
			t.stall--
		}
	}
	steppedAside := from != nil && from.stepAside
	if from != nil {
		from.stepAside = false
	}
	if len(enabled) == 0 {
		if unfinished == 0 {
			s.finishRun("done")
		} else {
			s.finishRun("deadlock")
		}
		if park {
			s.parkForever(from)
		}
		return
	}
	// Order the options: the current task first (so that choice 0 means "no
	// context switch"), the others by id.
	curEnabled := false
	if park {
		for i, t := range enabled {
			if t == from {
				copy(enabled[1:i+1], enabled[:i])
				enabled[0] = from
				curEnabled = true
				break
			}
		}
		if !curEnabled && from != nil {
			switch from.pend.kind {
			case OpSend:
				s.probes["park_on_full_channel"]++
			case OpRecv:
				s.probes["park_on_empty_channel"]++
			case OpLock, OpRLock:
				s.probes["park_on_held_mutex"]++
			case OpWait:
				s.probes["park_on_waitgroup"]++
			}
		}
	}
	if steppedAside {
		s.lastPoll = s.steps
	}
	if s.strategy == StratPCT && !s.replay && steppedAside {
		// PCT's rule for voluntary yields: the yielding task drops below
		// everybody, otherwise two polling tasks of high priority would hand the
		// processor to each other forever
		s.pctLow--
		from.prio = s.pctLow
	}
	idx := s.draw(len(enabled), func() int {
		i := s.pickIndex(enabled, curEnabled)
		// starvation guard: no strategy may leave an enabled task unchosen for
		// more than 40 decisions (Go's scheduler is preemptive and roughly fair;
		// a correct program that polls must make progress here too)
		// It only acts while somebody is polling (a voluntary yield, a select
		// that took its default or a failed TryLock within the last 64
		// decisions); programs that never poll get the strategies unmodified.
		if s.steps-s.lastPoll < 64 {
			oldest, age := -1, 40
			for k, t := range enabled {
				if t.waited > age {
					oldest, age = k, t.waited
				}
			}
			if oldest >= 0 {
				i = oldest
			}
		}
		// fairness guard: no strategy may run one task for more than 1000
		// consecutive decisions while others could run (a loop that polls under
		// a lock terminates under Go's preemptive scheduler, so it must here)
		if len(enabled) > 1 && enabled[i] == s.cur && s.consecutive > 200 {
			i = (i + 1) % len(enabled)
			if s.strategy == StratPCT && s.cur != nil {
				// the spinner loses its priority, otherwise it would be picked
				// again at once and the others would get one step in 200
				s.pctLow--
				s.cur.prio = s.pctLow
			}
		}
		return i
	})
	next := enabled[idx]
	if next == s.cur {
		s.consecutive++
	} else {
		s.consecutive = 0
	}
	for _, t := range enabled {
		t.waited++
	}
	next.waited = 0
	if curEnabled && idx != 0 {
		s.probes["preemptions"]++
	}
	if next != s.cur {
		s.switches++
	}
	s.logEvent(next.id, next.pend.kind, next.pend.obj)
	s.cur = next
	if next == from {
		return
	}
	next.wake <- struct{}{}
	if park {
		<-from.wake
		if from.abort {
			runtime.Goexit()
		}
	}
}

func (s *Sim) parkForever(t *task) {
	<-t.wake
	if t.abort {
		runtime.Goexit()
	}
	panic("simrt: task woken after the end of the run")
}

func (s *Sim) pickIndex(enabled []*task, curEnabled bool) int {
	n := len(enabled)
	if n == 1 {
		return 0
	}
	switch s.strategy {
	case StratPCT:
		for _, cp := range s.pctChange {
			if cp == s.steps && s.cur != nil {
				s.pctLow--
				s.cur.prio = s.pctLow
			}
		}
		best := 0
		for i, t := range enabled {
			if t.prio > enabled[best].prio {
				best = i
			}
		}
		return best
	case StratSticky:
		if curEnabled && s.rng.float() < s.stickyP {
			return 0
		}
		return int(s.rng.next() % uint64(n))
	case StratStarve:
		if s.steps >= s.starveA && s.steps < s.starveB {
			var opts []int
			for i, t := range enabled {
				if t.id != s.starveID {
					opts = append(opts, i)
				}
			}
			if len(opts) > 0 && len(opts) < n {
				s.probes["stall_steps"]++
				return opts[int(s.rng.next()%uint64(len(opts)))]
			}
		}
		return int(s.rng.next() % uint64(n))
	case StratLowest:
		best := 0
		for i, t := range enabled {
			if t.id < enabled[best].id {
				best = i
			}
		}
		return best
	case StratHighest:
		best := 0
		for i, t := range enabled {
			if t.id > enabled[best].id {
				best = i
			}
		}
		return best
	}
	return int(s.rng.next() % uint64(n))
}

func (s *Sim) ord() int {
	s.nextOrd++
	return s.nextOrd
}

// ---- public helpers for the harness ---------------------------------------

// Active reports whether a simulation is running (and not being torn down).
func Active() bool { return S != nil && !S.aborting }

// Go starts f as a new task (a plain goroutine outside a simulation).
func Go(f func()) { GoNamed("", f) }

// GoNamed is Go with a task name for reports.
func GoNamed(name string, f func()) {
	s := S
	if s == nil {
		go f()
		return
	}
	if s.aborting {
		return
	}
	t := s.spawn(name, f, s.cur)
	s.logEvent(s.cur.id, OpSpawn, t.id)
}

// Yield is a scheduling point with no other effect.
func Yield() {
	s := S
	if s == nil {
		runtime.Gosched()
		return
	}
	if s.aborting {
		return
	}
	t := s.cur
	t.pend = op{kind: OpYield}
	s.yield(t)
}

// Gosched stands in for runtime.Gosched in instrumented code: a scheduling
// point at which the caller steps aside - if anybody else can run, somebody
// else does.  (Without this a polling loop that yields on every iteration would
// livelock under the priority-based and the fixed-order strategies, although it
// terminates under any fair scheduler.)
func Gosched() {
	s := S
	if s == nil {
		runtime.Gosched()
		return
	}
	if s.aborting {
		return
	}
	t := s.cur
	t.pend = op{kind: OpYield}
	t.stepAside = true
	s.yield(t)
}

// Sleep stands in for time.Sleep: the system has no clock semantics, so a
// sleep is a scheduling point of unknown length at which the caller steps aside.
func Sleep(d time.Duration) {
	s := S
	if s == nil {
		time.Sleep(d)
		return
	}
	if d > 0 {
		s.now += d
	}
	Gosched()
}

// Seq returns the next value of the global event sequence number.  Histories
// are stamped with it.
func Seq() int64 {
	s := S
	if s == nil {
		return 0
	}
	s.seq++
	return s.seq
}

// TaskID returns the id of the running task (-1 outside a simulation).
func TaskID() int {
	if S == nil || S.cur == nil {
		return -1
	}
	return S.cur.id
}

// SetLabel tells the simulator what the running task is doing (used to make
// race signatures specific to the operations involved).
func SetLabel(l string) {
	if s := S; s != nil && s.cur != nil {
		s.cur.label = l
	}
}

// Mark records "now".  After the run TaskInfo.ActiveAfterMark tells which tasks
// initiated an operation later than that (a task that is merely being resumed
// from an operation its partner already completed for it does not count).
func Mark() {
	if s := S; s != nil {
		s.seq++
		s.markSeq = s.seq
	}
}

// LiveAdopted returns how many tasks started by instrumented `go` statements
// (as opposed to harness tasks, which are named) have not finished yet.
func LiveAdopted() int {
	s := S
	if s == nil {
		return 0
	}
	n := 0
	for _, t := range s.tasks {
		if !t.finished && strings.HasPrefix(t.name, "go#") {
			n++
		}
	}
	return n
}

// Probe counts the occurrence of a named condition.
func Probe(name string) {
	if s := S; s != nil {
		s.probes[name]++
	}
}

// ParkedOn lists, at any moment, the names of tasks parked with a disabled
// operation.  For harness diagnostics.
func (r *Result) Blocked() []string {
	var out []string
	for _, t := range r.Tasks {
		if !t.Finished {
			out = append(out, fmt.Sprintf("%s(#%d) parked on %s", t.Name, t.ID, t.Pending))
		}
	}
	sort.Strings(out)
	return out
}

func (r *Result) String() string {
	return fmt.Sprintf("end=%s steps=%d switches=%d trace=%016x blocked=[%s]", r.End, r.Steps, r.Switches, r.TraceID, strings.Join(r.Blocked(), "; "))
}

// Now replaces time.Now.  The system under test has no clock semantics of its
// own, so the simulator owns the clock: it advances with the event sequence
// number (1 microsecond per event), by the duration of every Sleep, and - the
// fault - by a drawn jump of 1 ms .. 100 s at a drawn fraction of the
// observations: a goroutine may be descheduled, or the whole process paused, for
// any length of time between two instructions, and code with time-outs must
// tolerate that.  The jump is only drawn when the clock is observed, so programs
// that never look at the time pay nothing and their tapes are unchanged.
func Now() time.Time {
	s := S
	if s == nil {
		// also outside a run (package initialisers, SimReset): never the real
		// clock, which would make a run and its replay differ
		return time.Unix(1700000000, 0)
	}
	if s.cfg.ClockJump > 0 && !s.aborting {
		k := s.draw(7, func() int {
			if s.rng.float() < s.cfg.ClockJump {
				return 1 + int(s.rng.next()%6)
			}
			return 0
		})
		if k > 0 {
			s.probes["clock_jumps"]++
			d := time.Millisecond
			for i := 1; i < k; i++ {
				d *= 10
			}
			s.now += d
		}
	}
	return time.Unix(1700000000, 0).Add(s.now + time.Duration(s.seq)*time.Microsecond)
}

// Since replaces time.Since.
func Since(t time.Time) time.Duration { return Now().Sub(t) }
