// Command instrument rewrites a scratch copy of the module under test so that
// every synchronisation operation, goroutine start and shared-variable access
// goes through verif.local/simrt.  It never touches /repo.
//
// Usage: instrument -dir <copy of /repo/v4> [-stats out.json]
//
// Exit status: 0 ok; 2 the tree cannot be instrumented (type errors,
// unsupported primitives) — callers must treat that as "cannot decide".
package main

import (
	"bytes"
	"encoding/json"
	"flag"
	"fmt"
	"go/ast"
	"go/format"
	"go/token"
	"go/types"
	"os"
	"path/filepath"
	"regexp"
	"sort"
	"strconv"
	"strings"

	"golang.org/x/tools/go/ast/astutil"
	"golang.org/x/tools/go/packages"
)

const simrtPath = "verif.local/simrt"

type stats struct {
	Mode        string         `json:"mode"`
	Files       int            `json:"files"`
	Rewrites    map[string]int `json:"rewrites"`
	Unsupported []string       `json:"unsupported"`
	Packages    []string       `json:"packages"`
}

var st = stats{Mode: "typed (go/packages + go/types)", Rewrites: map[string]int{}}

func unsupported(fset *token.FileSet, pos token.Pos, what string) {
	st.Unsupported = append(st.Unsupported, fmt.Sprintf("%s: %s", fset.Position(pos), what))
}

func main() {
	dir := flag.String("dir", "", "module directory to rewrite in place")
	statsOut := flag.String("stats", "", "write statistics JSON here")
	flag.Parse()
	if *dir == "" {
		fmt.Fprintln(os.Stderr, "instrument: -dir required")
		os.Exit(2)
	}
	abs, err := filepath.Abs(*dir)
	if err != nil {
		fmt.Fprintln(os.Stderr, err)
		os.Exit(2)
	}
	// Test files are not part of the system under test and would drag in
	// packages that are not instrumented.
	filepath.Walk(abs, func(p string, fi os.FileInfo, err error) error {
		if err == nil && !fi.IsDir() && strings.HasSuffix(p, "_test.go") {
			os.Remove(p)
		}
		return nil
	})
	cfg := &packages.Config{
		Mode: packages.NeedName | packages.NeedFiles | packages.NeedCompiledGoFiles | packages.NeedSyntax |
			packages.NeedTypes | packages.NeedTypesInfo | packages.NeedImports | packages.NeedModule,
		Dir: abs,
		Env: os.Environ(),
	}
	pkgs, err := packages.Load(cfg, "./...")
	if err != nil {
		fmt.Fprintln(os.Stderr, "instrument: load:", err)
		os.Exit(2)
	}
	bad := false
	for _, p := range pkgs {
		for _, e := range p.Errors {
			fmt.Fprintln(os.Stderr, "instrument: type error:", e)
			bad = true
		}
	}
	if bad {
		os.Exit(2)
	}
	modPath := ""
	for _, p := range pkgs {
		if p.Module != nil {
			modPath = p.Module.Path
		}
	}
	sort.Slice(pkgs, func(i, j int) bool { return pkgs[i].PkgPath < pkgs[j].PkgPath })
	for _, p := range pkgs {
		st.Packages = append(st.Packages, p.PkgPath)
		in := &instr{pkg: p, fset: p.Fset, info: p.TypesInfo, modPath: modPath, handledVars: map[string]bool{}, resetByExpr: map[ast.Expr]string{}}
		for i, f := range p.Syntax {
			name := p.CompiledGoFiles[i]
			if !strings.HasPrefix(name, abs) {
				continue
			}
			resetVars := in.fileResetVars(f)
			in.file(f)
			resetFn := in.fileReset(f, resetVars)
			in.renameInits(f)
			f.Comments = nil
			var buf bytes.Buffer
			if err := format.Node(&buf, p.Fset, f); err != nil {
				fmt.Fprintln(os.Stderr, "instrument: print:", name, err)
				os.Exit(2)
			}
			buf.WriteString(resetFn)
			if err := os.WriteFile(name, buf.Bytes(), 0o644); err != nil {
				fmt.Fprintln(os.Stderr, err)
				os.Exit(2)
			}
			st.Files++
		}
		if len(p.CompiledGoFiles) > 0 {
			in.writeReset(filepath.Dir(p.CompiledGoFiles[0]))
		}
	}
	// go.mod: depend on the runtime.
	gm := filepath.Join(abs, "go.mod")
	b, err := os.ReadFile(gm)
	if err != nil {
		fmt.Fprintln(os.Stderr, err)
		os.Exit(2)
	}
	// range-over-func (the map-iteration seam) needs language version 1.23
	b = regexp.MustCompile(`(?m)^go 1\.(1[0-9]|2[0-2])(\.[0-9]+)?$`).ReplaceAll(b, []byte("go 1.23"))
	b = append(b, []byte("\nrequire "+simrtPath+" v0.0.0\n\nreplace "+simrtPath+" => ../simrt\n")...)
	os.WriteFile(gm, b, 0o644)
	if *statsOut != "" {
		j, _ := json.MarshalIndent(st, "", " ")
		os.WriteFile(*statsOut, j, 0o644)
	}
	if len(st.Unsupported) > 0 {
		for _, u := range st.Unsupported {
			fmt.Fprintln(os.Stderr, "instrument: cannot decide: unsupported primitive:", u)
		}
		os.Exit(2)
	}
}

type accessMode int

const (
	modeNone accessMode = iota
	modeR
	modeW
)

type instr struct {
	pkg     *packages.Package
	fset    *token.FileSet
	info    *types.Info
	modPath string
	modes   map[ast.Expr]accessMode
	skip    map[ast.Node]bool
	funcs   []string
	tmp     int
	used    bool

	wasChanRange map[*ast.RangeStmt]bool
	resetByExpr  map[ast.Expr]string // initialiser expression (original node) -> reset function
	resetCount   int
	initFuncs    []string
	handledVars  map[string]bool
	// local variables (and parameters) captured by the function literal of a
	// go statement: shared between the spawning and the spawned goroutine
	sharedLocals map[*types.Var]bool
	// per-element tracking of slice accesses
	elemModes     map[*ast.IndexExpr]accessMode
	elemSkip      map[*ast.IndexExpr]bool
	twoValueRecv  map[*ast.UnaryExpr]bool
	goInfo        map[*ast.GoStmt]goHoist
	mapRange      map[*ast.RangeStmt]bool
	mapKeysCall   map[*ast.CallExpr]bool
	sendAny       map[ast.Node]bool             // send statements whose value must be converted to the interface element type
	labeledSelect map[*ast.BlockStmt][]ast.Stmt // generated block -> hoists (label must move onto the switch)
}

func sel(name string) ast.Expr {
	return &ast.SelectorExpr{X: ast.NewIdent("simrt"), Sel: ast.NewIdent(name)}
}

func (in *instr) call(name string, args ...ast.Expr) *ast.CallExpr {
	in.used = true
	return &ast.CallExpr{Fun: sel(name), Args: args}
}

func (in *instr) fresh(prefix string) *ast.Ident {
	in.tmp++
	return ast.NewIdent(fmt.Sprintf("sim%s%d", prefix, in.tmp))
}

func strLit(s string) ast.Expr {
	return &ast.BasicLit{Kind: token.STRING, Value: strconv.Quote(s)}
}

func intLit(i int) ast.Expr {
	if i < 0 {
		return &ast.UnaryExpr{Op: token.SUB, X: &ast.BasicLit{Kind: token.INT, Value: strconv.Itoa(-i)}}
	}
	return &ast.BasicLit{Kind: token.INT, Value: strconv.Itoa(i)}
}

func isSyncType(t types.Type) bool {
	for {
		if p, ok := t.(*types.Pointer); ok {
			t = p.Elem()
			continue
		}
		break
	}
	n, ok := t.(*types.Named)
	if !ok || n.Obj().Pkg() == nil {
		return false
	}
	p := n.Obj().Pkg().Path()
	return p == "sync" || p == "sync/atomic" || p == simrtPath
}

func (in *instr) ownPkg(p *types.Package) bool {
	if p == nil {
		return false
	}
	return p.Path() == in.modPath || strings.HasPrefix(p.Path(), in.modPath+"/")
}

// isLoc reports whether e denotes a heap location the race oracle tracks: a
// struct field reached through a pointer, or a package-level variable of the
// module under test.
func (in *instr) isLoc(e ast.Expr) bool {
	switch x := e.(type) {
	case *ast.Ident:
		v, ok := in.info.Uses[x].(*types.Var)
		if !ok || v.IsField() || v.Pkg() == nil {
			return false
		}
		if in.sharedLocals[v] {
			return !isSyncType(v.Type())
		}
		if v.Parent() != v.Pkg().Scope() || !in.ownPkg(v.Pkg()) {
			return false
		}
		return !isSyncType(v.Type())
	case *ast.SelectorExpr:
		if s, ok := in.info.Selections[x]; ok {
			if s.Kind() != types.FieldVal {
				return false
			}
			if isSyncType(s.Type()) {
				return false
			}
			if s.Indirect() {
				return true
			}
			// value path: a location only if the operand is one.
			return in.isLoc(stripValue(x.X))
		}
		// qualified identifier pkg.Var
		if v, ok := in.info.Uses[x.Sel].(*types.Var); ok && !v.IsField() && v.Pkg() != nil {
			if v.Parent() == v.Pkg().Scope() && in.ownPkg(v.Pkg()) && !isSyncType(v.Type()) {
				return true
			}
		}
	}
	return false
}

func stripValue(e ast.Expr) ast.Expr {
	for {
		switch x := e.(type) {
		case *ast.ParenExpr:
			e = x.X
		default:
			return e
		}
	}
}

// writeBase finds the tracked location that an assignment to e modifies.
func (in *instr) writeBase(e ast.Expr) ast.Expr {
	for {
		switch x := e.(type) {
		case *ast.ParenExpr:
			e = x.X
		case *ast.IndexExpr:
			// a[i] = v writes the array/slice/map held in a.
			if tv, ok := in.info.Types[x.X]; ok {
				if _, isPtr := tv.Type.Underlying().(*types.Pointer); isPtr {
					return nil
				}
			}
			e = x.X
		case *ast.SliceExpr:
			e = x.X
		case *ast.SelectorExpr:
			if in.isLoc(x) {
				return x
			}
			if s, ok := in.info.Selections[x]; ok && s.Kind() == types.FieldVal && !s.Indirect() {
				e = x.X
				continue
			}
			return nil
		case *ast.Ident:
			if in.isLoc(x) {
				return x
			}
			return nil
		default:
			return nil
		}
	}
}

func (in *instr) markWrite(e ast.Expr) {
	if b := in.writeBase(e); b != nil {
		in.modes[b] = modeW
	}
}

var readOnlyMethods = map[string]bool{"String": true, "Len": true, "Cap": true}

func (in *instr) findSharedLocals(f *ast.File) {
	in.sharedLocals = map[*types.Var]bool{}
	ast.Inspect(f, func(n ast.Node) bool {
		g, ok := n.(*ast.GoStmt)
		if !ok {
			return true
		}
		lit, ok := stripValue(g.Call.Fun).(*ast.FuncLit)
		if !ok {
			return true
		}
		ast.Inspect(lit.Body, func(m ast.Node) bool {
			id, ok := m.(*ast.Ident)
			if !ok {
				return true
			}
			v, ok := in.info.Uses[id].(*types.Var)
			if !ok || v.IsField() || v.Pkg() == nil || v.Parent() == v.Pkg().Scope() {
				return true
			}
			if v.Pos() < lit.Pos() || v.Pos() > lit.End() {
				in.sharedLocals[v] = true
			}
			return true
		})
		return true
	})
}

// isSliceIndex: x[i] where x is a slice (not a map, string, array value or a
// generic instantiation).
func (in *instr) isSliceIndex(ix *ast.IndexExpr) bool {
	tv, ok := in.info.Types[ix.X]
	if !ok || !tv.IsValue() {
		return false
	}
	if _, isSlice := tv.Type.Underlying().(*types.Slice); !isSlice {
		return false
	}
	if os.Getenv("VERIF_NO_ELEMENTS") != "" {
		return false // measurement aid: instrument without per-element tracking
	}
	// a slice that is the result of a call is a temporary: nothing to share
	switch stripValue(ix.X).(type) {
	case *ast.CallExpr:
		return false
	}
	return true
}

func (in *instr) computeModes(f *ast.File) {
	in.findSharedLocals(f)
	in.elemSkip = map[*ast.IndexExpr]bool{}
	in.modes = map[ast.Expr]accessMode{}
	ast.Inspect(f, func(n ast.Node) bool {
		switch x := n.(type) {
		case *ast.AssignStmt:
			if x.Tok != token.DEFINE {
				for _, l := range x.Lhs {
					in.markWrite(l)
				}
			}
		case *ast.IncDecStmt:
			in.markWrite(x.X)
		case *ast.RangeStmt:
			if x.Tok == token.ASSIGN {
				if x.Key != nil {
					in.markWrite(x.Key)
				}
				if x.Value != nil {
					in.markWrite(x.Value)
				}
			}
		case *ast.CallExpr:
			if id, ok := x.Fun.(*ast.Ident); ok {
				if _, isB := in.info.Uses[id].(*types.Builtin); isB && len(x.Args) > 0 {
					switch id.Name {
					case "delete", "copy", "clear":
						in.markWrite(x.Args[0])
					}
				}
			}
			if s, ok := x.Fun.(*ast.SelectorExpr); ok {
				if msel, ok := in.info.Selections[s]; ok && msel.Kind() == types.MethodVal {
					recv := stripValue(s.X)
					if in.isLoc(recv) {
						if tv, ok := in.info.Types[recv]; ok {
							if nt, ok := tv.Type.(*types.Named); ok {
								// only a POINTER-receiver method can modify the value held in
								// the field; a value-receiver method (time.Time.Unix, ...) reads it
								ptrRecv := false
								if fn, ok := msel.Obj().(*types.Func); ok {
									if sig, ok := fn.Type().(*types.Signature); ok && sig.Recv() != nil {
										_, ptrRecv = sig.Recv().Type().(*types.Pointer)
									}
								}
								if _, isStruct := nt.Underlying().(*types.Struct); isStruct && ptrRecv && !in.ownPkg(nt.Obj().Pkg()) && !readOnlyMethods[s.Sel.Name] {
									in.modes[recv] = modeW
								}
							}
						}
					}
				}
			}
		}
		return true
	})
	// slice elements: x[i] on a slice (always addressable) is tracked per element
	in.elemModes = map[*ast.IndexExpr]accessMode{}
	markElem := func(e ast.Expr, m accessMode) {
		ix, ok := stripValue(e).(*ast.IndexExpr)
		if !ok || !in.isSliceIndex(ix) {
			return
		}
		in.elemModes[ix] = m
	}
	ast.Inspect(f, func(n ast.Node) bool {
		switch x := n.(type) {
		case *ast.AssignStmt:
			if x.Tok != token.DEFINE {
				for _, l := range x.Lhs {
					markElem(l, modeW)
				}
			}
		case *ast.IncDecStmt:
			markElem(x.X, modeW)
		case *ast.UnaryExpr:
			if x.Op == token.AND {
				// &x[i]: the address escapes; not tracked (and must stay an lvalue)
				if ix, ok := stripValue(x.X).(*ast.IndexExpr); ok {
					in.elemModes[ix] = modeNone
					in.elemSkip[ix] = true
				}
			}
		}
		return true
	})
	ast.Inspect(f, func(n ast.Node) bool {
		if ix, ok := n.(*ast.IndexExpr); ok && in.isSliceIndex(ix) && !in.elemSkip[ix] {
			if _, done := in.elemModes[ix]; !done {
				in.elemModes[ix] = modeR
			}
		}
		return true
	})
	// Not accesses at all: the direct operand of & (taking an address reads
	// nothing), identifiers redeclared on the left of := (they must stay plain
	// names), and anything inside a constant expression (len of an array field
	// used as an array length must stay constant).
	noAccess := map[ast.Expr]bool{}
	ast.Inspect(f, func(n ast.Node) bool {
		switch x := n.(type) {
		case *ast.UnaryExpr:
			if x.Op == token.AND {
				noAccess[stripValue(x.X)] = true
			}
		case *ast.AssignStmt:
			if x.Tok == token.DEFINE {
				for _, l := range x.Lhs {
					noAccess[stripValue(l)] = true
				}
			}
		case *ast.RangeStmt:
			if x.Tok == token.DEFINE {
				if x.Key != nil {
					noAccess[stripValue(x.Key)] = true
				}
				if x.Value != nil {
					noAccess[stripValue(x.Value)] = true
				}
			}
		}
		return true
	})
	// everything else that is a location is a read
	ast.Inspect(f, func(n ast.Node) bool {
		e, ok := n.(ast.Expr)
		if !ok {
			return true
		}
		if tv, ok := in.info.Types[e]; ok && tv.Value != nil {
			// a constant expression: leave it (and everything inside it) alone
			ast.Inspect(e, func(m ast.Node) bool {
				if me, ok := m.(ast.Expr); ok {
					delete(in.modes, me)
					if ix, ok := me.(*ast.IndexExpr); ok {
						delete(in.elemModes, ix)
					}
				}
				return true
			})
			return false
		}
		switch e.(type) {
		case *ast.Ident, *ast.SelectorExpr:
			if noAccess[e] {
				delete(in.modes, e)
				return true
			}
			if _, done := in.modes[e]; !done && in.isLoc(e) {
				in.modes[e] = modeR
			}
		}
		return true
	})
}

func (in *instr) varName(e ast.Expr) string {
	switch x := e.(type) {
	case *ast.Ident:
		if v, ok := in.info.Uses[x].(*types.Var); ok && in.sharedLocals[v] {
			return "captured-local " + x.Name
		}
		return in.pkg.Name + "." + x.Name
	case *ast.SelectorExpr:
		if s, ok := in.info.Selections[x]; ok {
			t := s.Recv()
			for {
				if p, ok := t.(*types.Pointer); ok {
					t = p.Elem()
					continue
				}
				break
			}
			tn := "?"
			if n, ok := t.(*types.Named); ok {
				tn = n.Obj().Name()
			}
			return tn + "." + x.Sel.Name
		}
		if id, ok := x.X.(*ast.Ident); ok {
			return id.Name + "." + x.Sel.Name
		}
	}
	return "?"
}

func (in *instr) curFunc() string {
	if len(in.funcs) == 0 {
		return "init"
	}
	return in.funcs[len(in.funcs)-1]
}

func funcName(d *ast.FuncDecl) string {
	if d.Recv != nil && len(d.Recv.List) > 0 {
		t := d.Recv.List[0].Type
		for {
			switch x := t.(type) {
			case *ast.StarExpr:
				t = x.X
				continue
			case *ast.IndexExpr:
				t = x.X
				continue
			case *ast.IndexListExpr:
				t = x.X
				continue
			case *ast.ParenExpr:
				t = x.X
				continue
			}
			break
		}
		if id, ok := t.(*ast.Ident); ok {
			return id.Name + "." + d.Name.Name
		}
	}
	return d.Name.Name
}

func (in *instr) isChan(e ast.Expr) bool {
	tv, ok := in.info.Types[e]
	if !ok {
		return false
	}
	_, isCh := coreChan(tv.Type)
	return isCh
}

// coreChan: the channel type of t, also when t is a type parameter whose
// constraint has a channel core type (~chan E).
func coreChan(t types.Type) (*types.Chan, bool) {
	if ch, ok := t.Underlying().(*types.Chan); ok {
		return ch, true
	}
	if tp, ok := t.(*types.TypeParam); ok {
		if iface, ok := tp.Constraint().Underlying().(*types.Interface); ok {
			var found *types.Chan
			for i := 0; i < iface.NumEmbeddeds(); i++ {
				if u, ok := iface.EmbeddedType(i).(*types.Union); ok {
					for k := 0; k < u.Len(); k++ {
						if ch, ok := u.Term(k).Type().Underlying().(*types.Chan); ok {
							found = ch
						}
					}
				} else if ch, ok := iface.EmbeddedType(i).Underlying().(*types.Chan); ok {
					found = ch
				}
			}
			if found != nil {
				return found, true
			}
		}
	}
	return nil, false
}

func (in *instr) isConst(e ast.Expr) bool {
	tv, ok := in.info.Types[e]
	return ok && (tv.Value != nil || tv.IsNil())
}

func (in *instr) file(f *ast.File) {
	in.computeModes(f)
	in.skip = map[ast.Node]bool{}
	in.labeledSelect = map[*ast.BlockStmt][]ast.Stmt{}
	in.used = false
	pre := func(c *astutil.Cursor) bool {
		switch n := c.Node().(type) {
		case *ast.FuncDecl:
			in.funcs = append(in.funcs, funcName(n))
		case *ast.SelectStmt:
			for _, cl := range n.Body.List {
				cc := cl.(*ast.CommClause)
				switch s := cc.Comm.(type) {
				case *ast.SendStmt:
					in.skip[s] = true
				case *ast.ExprStmt:
					in.skip[stripValue(s.X)] = true
				case *ast.AssignStmt:
					if len(s.Rhs) == 1 {
						in.skip[stripValue(s.Rhs[0])] = true
					}
				}
			}
		case *ast.ImportSpec:
			return false
		}
		return true
	}
	post := func(c *astutil.Cursor) bool {
		switch n := c.Node().(type) {
		case *ast.FuncDecl:
			in.funcs = in.funcs[:len(in.funcs)-1]
		case *ast.SendStmt:
			if !in.skip[n] {
				st.Rewrites["send"]++
				if in.sendAny[n] {
					c.Replace(&ast.ExprStmt{X: in.call("SendAny", n.Chan, n.Value)})
				} else {
					c.Replace(&ast.ExprStmt{X: in.call("Send", n.Chan, n.Value)})
				}
			}
		case *ast.UnaryExpr:
			if n.Op == token.ARROW && !in.skip[n] {
				two := in.twoValueRecv[n]
				st.Rewrites["recv"]++
				if two {
					c.Replace(in.call("Recv2", n.X))
				} else {
					c.Replace(in.call("Recv", n.X))
				}
			}
		case *ast.CallExpr:
			if in.mapKeysCall[n] {
				st.Rewrites["reflect_map_keys"]++
				c.Replace(in.call("MapKeysOf", n.Fun.(*ast.SelectorExpr).X))
			} else {
				in.callExpr(c, n)
			}
		case *ast.GoStmt:
			in.goStmt(c, n)
		case *ast.RangeStmt:
			if in.isChan(n.X) || in.wasChanRange[n] {
				in.rangeChan(c, n)
			} else if in.mapRange[n] {
				// the iteration order of a map is the simulator's choice
				st.Rewrites["range_map"]++
				n.X = in.call("MapSeq", n.X)
			}
		case *ast.SelectStmt:
			in.selectStmt(c, n)
		case *ast.SelectorExpr:
			in.selector(c, n)
		case *ast.Ident:
			if m := in.modes[n]; m != modeNone {
				if _, isSel := c.Parent().(*ast.SelectorExpr); isSel && c.Name() == "Sel" {
					return true
				}
				in.replaceAccess(c, n, m)
			}
		case *ast.IndexExpr:
			if m := in.elemModes[n]; m != modeNone {
				fn := "R"
				if m == modeW {
					fn = "W"
				}
				st.Rewrites["element_"+fn]++
				pos := in.fset.Position(n.Lbrack)
				site := fmt.Sprintf("slice-element|%s|%s:%d", in.curFunc(), filepath.Base(pos.Filename), pos.Line)
				c.Replace(&ast.ParenExpr{X: &ast.StarExpr{X: in.call(fn+"e", &ast.UnaryExpr{Op: token.AND, X: n}, strLit(site))}})
			}
		case *ast.LabeledStmt:
			if blk, ok := n.Stmt.(*ast.BlockStmt); ok {
				if pre, ok := in.labeledSelect[blk]; ok {
					sw := blk.List[len(blk.List)-1]
					c.Replace(&ast.BlockStmt{List: append(append([]ast.Stmt{}, pre...), &ast.LabeledStmt{Label: n.Label, Stmt: sw})})
				}
			}
		case *ast.IncDecStmt:
			in.splitRMW(c, n.X, n.Tok, nil)
		case *ast.AssignStmt:
			if len(n.Lhs) == 1 && len(n.Rhs) == 1 {
				if op, ok := assignOps[n.Tok]; ok {
					in.splitRMW(c, n.Lhs[0], op, n.Rhs[0])
				}
			}
		}
		return true
	}
	in.analyseGo(f)
	in.mapRange = map[*ast.RangeStmt]bool{}
	in.mapKeysCall = map[*ast.CallExpr]bool{}
	ast.Inspect(f, func(n ast.Node) bool {
		switch x := n.(type) {
		case *ast.RangeStmt:
			if tv, ok := in.info.Types[x.X]; ok {
				if _, isMap := tv.Type.Underlying().(*types.Map); isMap {
					in.mapRange[x] = true
				}
			}
		case *ast.CallExpr:
			if se, ok := x.Fun.(*ast.SelectorExpr); ok && se.Sel.Name == "MapKeys" && len(x.Args) == 0 {
				if tv, ok := in.info.Types[se.X]; ok {
					if nt, ok := tv.Type.(*types.Named); ok && nt.Obj().Pkg() != nil && nt.Obj().Pkg().Path() == "reflect" && nt.Obj().Name() == "Value" {
						in.mapKeysCall[x] = true
					}
				}
			}
		}
		return true
	})
	// sends of a concrete value on a channel of interface type: the generic
	// Send cannot infer one T for both operands
	in.sendAny = map[ast.Node]bool{}
	ast.Inspect(f, func(n ast.Node) bool {
		if sd, ok := n.(*ast.SendStmt); ok {
			ct, ok1 := in.info.Types[sd.Chan]
			vt, ok2 := in.info.Types[sd.Value]
			if ok1 && ok2 {
				if chT, ok := coreChan(ct.Type); ok {
					if _, isIface := chT.Elem().Underlying().(*types.Interface); isIface && !types.Identical(chT.Elem(), vt.Type) {
						in.sendAny[sd] = true
					}
				}
			}
		}
		return true
	})
	// two-value receives, possibly parenthesised: v, ok := (<-ch)
	in.twoValueRecv = map[*ast.UnaryExpr]bool{}
	ast.Inspect(f, func(n ast.Node) bool {
		var rhs ast.Expr
		switch p := n.(type) {
		case *ast.AssignStmt:
			if len(p.Lhs) == 2 && len(p.Rhs) == 1 {
				rhs = p.Rhs[0]
			}
		case *ast.ValueSpec:
			if len(p.Names) == 2 && len(p.Values) == 1 {
				rhs = p.Values[0]
			}
		}
		if rhs != nil {
			if u, ok := stripValue(rhs).(*ast.UnaryExpr); ok && u.Op == token.ARROW {
				in.twoValueRecv[u] = true
			}
		}
		return true
	})
	// Range-over-channel detection must look at the operand before its
	// children are rewritten (type info is keyed by the original nodes).
	in.wasChanRange = map[*ast.RangeStmt]bool{}
	ast.Inspect(f, func(n ast.Node) bool {
		if r, ok := n.(*ast.RangeStmt); ok && in.isChan(r.X) {
			in.wasChanRange[r] = true
		}
		return true
	})
	astutil.Apply(f, pre, post)
	if in.used {
		astutil.AddNamedImport(in.fset, f, "simrt", simrtPath)
	}
	type unusedImport struct{ name, path string }
	var unused []unusedImport
	for _, imp := range f.Imports {
		path, _ := strconv.Unquote(imp.Path.Value)
		if path == simrtPath {
			continue
		}
		if imp.Name != nil && (imp.Name.Name == "_" || imp.Name.Name == ".") {
			continue
		}
		if !emptiedByRewrite[path] {
			continue
		}
		if !astutil.UsesImport(f, path) {
			name := ""
			if imp.Name != nil {
				name = imp.Name.Name
			}
			unused = append(unused, unusedImport{name, path})
		}
	}
	for _, u := range unused {
		astutil.DeleteNamedImport(in.fset, f, u.name, u.path)
	}
}

// imports whose uses the rewrite may remove completely
var emptiedByRewrite = map[string]bool{"sync": true, "sync/atomic": true, "runtime": true, "time": true, "crypto/rand": true}

var atomicFuncs = func() map[string]bool {
	m := map[string]bool{}
	for _, op := range []string{"Add", "Load", "Store", "Swap", "CompareAndSwap", "And", "Or"} {
		for _, ty := range []string{"Int32", "Int64", "Uint32", "Uint64"} {
			m[op+ty] = true
		}
	}
	return m
}()

var assignOps = map[token.Token]token.Token{
	token.ADD_ASSIGN: token.ADD, token.SUB_ASSIGN: token.SUB, token.MUL_ASSIGN: token.MUL,
	token.QUO_ASSIGN: token.QUO, token.REM_ASSIGN: token.REM, token.AND_ASSIGN: token.AND,
	token.OR_ASSIGN: token.OR, token.XOR_ASSIGN: token.XOR, token.SHL_ASSIGN: token.SHL,
	token.SHR_ASSIGN: token.SHR, token.AND_NOT_ASSIGN: token.AND_NOT,
}

func (in *instr) replaceAccess(c *astutil.Cursor, e ast.Expr, m accessMode) {
	fn := "R"
	if m == modeW {
		fn = "W"
	}
	st.Rewrites["access_"+fn]++
	pos := in.fset.Position(e.Pos())
	site := fmt.Sprintf("%s|%s|%s:%d", in.varName(e), in.curFunc(), filepath.Base(pos.Filename), pos.Line)
	c.Replace(&ast.ParenExpr{X: &ast.StarExpr{X: in.call(fn, &ast.UnaryExpr{Op: token.AND, X: e}, strLit(site))}})
}

// accessCall recognises the form produced by replaceAccess and returns the
// simrt.W(...) call inside it.
func accessCall(e ast.Expr) *ast.CallExpr {
	p, ok := e.(*ast.ParenExpr)
	if !ok {
		return nil
	}
	s, ok := p.X.(*ast.StarExpr)
	if !ok {
		return nil
	}
	call, ok := s.X.(*ast.CallExpr)
	if !ok {
		return nil
	}
	se, ok := call.Fun.(*ast.SelectorExpr)
	if !ok {
		return nil
	}
	if id, ok := se.X.(*ast.Ident); !ok || id.Name != "simrt" || se.Sel.Name != "W" {
		return nil
	}
	return call
}

// splitRMW turns `x++` / `x op= y` on a tracked location into load,
// preemption point, store.
func (in *instr) splitRMW(c *astutil.Cursor, lhs ast.Expr, tok token.Token, rhs ast.Expr) {
	call := accessCall(lhs)
	if call == nil {
		return
	}
	switch c.Parent().(type) {
	case *ast.BlockStmt, *ast.CaseClause, *ast.CommClause, *ast.LabeledStmt:
	default:
		return // for-post, if-init etc. must stay simple statements
	}
	var op token.Token
	var operand ast.Expr
	switch tok {
	case token.INC:
		op, operand = token.ADD, &ast.BasicLit{Kind: token.INT, Value: "1"}
	case token.DEC:
		op, operand = token.SUB, &ast.BasicLit{Kind: token.INT, Value: "1"}
	default:
		op, operand = tok, &ast.ParenExpr{X: rhs}
	}
	st.Rewrites["rmw_split"]++
	p := in.fresh("P")
	v := in.fresh("V")
	var first []ast.Stmt
	if rhs != nil && !in.isConstRewritten(rhs) && op != token.SHL && op != token.SHR {
		// Go evaluates the right-hand side (calls, receives) before it loads the
		// left-hand side: so does the split, otherwise the window between load and
		// store would contain operations the real statement runs before the load.
		y := in.fresh("Y")
		first = append(first, &ast.AssignStmt{Lhs: []ast.Expr{y}, Tok: token.DEFINE, Rhs: []ast.Expr{rhs}})
		operand = y
	}
	blk := &ast.BlockStmt{List: append(first, []ast.Stmt{
		&ast.AssignStmt{Lhs: []ast.Expr{p}, Tok: token.DEFINE, Rhs: []ast.Expr{call}},
		&ast.AssignStmt{Lhs: []ast.Expr{v}, Tok: token.DEFINE, Rhs: []ast.Expr{&ast.StarExpr{X: p}}},
		&ast.ExprStmt{X: in.call("AccessYield", p)},
		&ast.AssignStmt{Lhs: []ast.Expr{&ast.StarExpr{X: p}}, Tok: token.ASSIGN, Rhs: []ast.Expr{&ast.BinaryExpr{X: v, Op: op, Y: operand}}},
	}...)}
	c.Replace(blk)
}

// unsafeForeign lists standard-library types whose methods mutate the receiver
// and are documented as not safe for concurrent use: a method call through a
// pointer to one of them is recorded as a write to the pointee.
var unsafeForeign = map[string]bool{
	"math/rand.Rand": true, "math/rand/v2.Rand": true, "strings.Builder": true, "bytes.Buffer": true,
	"container/list.List": true, "container/ring.Ring": true, "bufio.Reader": true, "bufio.Writer": true,
	"bufio.Scanner": true, "text/tabwriter.Writer": true, "strings.Reader": true, "bytes.Reader": true,
}

func (in *instr) callExpr(c *astutil.Cursor, n *ast.CallExpr) {
	if se, ok := n.Fun.(*ast.SelectorExpr); ok {
		if msel, ok := in.info.Selections[se]; ok && msel.Kind() == types.MethodVal {
			if pt, ok := msel.Recv().(*types.Pointer); ok {
				if nt, ok := pt.Elem().(*types.Named); ok && nt.Obj().Pkg() != nil && unsafeForeign[nt.Obj().Pkg().Path()+"."+nt.Obj().Name()] {
					st.Rewrites["foreign_pointee_write"]++
					pos := in.fset.Position(n.Lparen)
					site := fmt.Sprintf("*%s.%s|%s|%s:%d", nt.Obj().Pkg().Name(), nt.Obj().Name(), in.curFunc(), filepath.Base(pos.Filename), pos.Line)
					se.X = in.call("W", se.X, strLit(site))
				}
			}
		}
	}
	switch f := n.Fun.(type) {
	case *ast.Ident:
		if _, isB := in.info.Uses[f].(*types.Builtin); isB && f.Name == "close" {
			st.Rewrites["close"]++
			in.used = true
			n.Fun = sel("Close")
		}
	case *ast.SelectorExpr:
		if fn, ok := in.info.Uses[f.Sel].(*types.Func); ok && fn.Pkg() != nil {
			switch {
			case fn.Pkg().Path() == "runtime" && fn.Name() == "Gosched":
				st.Rewrites["gosched"]++
				in.used = true
				n.Fun = sel("Gosched")
			case fn.Pkg().Path() == "time" && fn.Name() == "Sleep":
				st.Rewrites["sleep"]++
				in.used = true
				n.Fun = sel("Sleep")
			}
		}
	}
}

func (in *instr) selector(c *astutil.Cursor, n *ast.SelectorExpr) {
	if obj := in.info.Uses[n.Sel]; obj != nil && obj.Pkg() != nil {
		if _, isQualified := in.info.Selections[n]; !isQualified {
			path := obj.Pkg().Path()
			switch path {
			case "sync":
				if _, ok := obj.(*types.TypeName); ok {
					switch obj.Name() {
					case "Mutex", "RWMutex", "WaitGroup", "Once", "Cond", "Locker", "Pool", "Map":
						st.Rewrites["sync_type"]++
						in.used = true
						c.Replace(sel(obj.Name()))
					default:
						unsupported(in.fset, n.Pos(), "sync."+obj.Name())
					}
					return
				}
				if _, ok := obj.(*types.Func); ok {
					switch obj.Name() {
					case "NewCond", "OnceFunc", "OnceValue", "OnceValues":
						st.Rewrites["sync_type"]++
						in.used = true
						c.Replace(sel(obj.Name()))
						return
					}
				}
				unsupported(in.fset, n.Pos(), "sync."+obj.Name())
				return
			case "sync/atomic":
				switch obj.(type) {
				case *types.TypeName:
					switch obj.Name() {
					case "Int32", "Int64", "Uint32", "Uint64", "Bool", "Pointer", "Value":
						st.Rewrites["atomic"]++
						in.used = true
						c.Replace(sel(obj.Name()))
						return
					}
				case *types.Func:
					if atomicFuncs[obj.Name()] {
						st.Rewrites["atomic"]++
						in.used = true
						c.Replace(sel(obj.Name()))
						return
					}
				}
				unsupported(in.fset, n.Pos(), "sync/atomic."+obj.Name())
				return
			case "time":
				switch obj.(type) {
				case *types.Func:
					switch obj.Name() {
					case "Sleep":
					case "Now", "Since":
						// the system has no clock semantics: a deterministic
						// logical time derived from the event sequence number
						st.Rewrites["time_now"]++
						in.used = true
						c.Replace(sel(obj.Name()))
					case "Unix", "UnixMilli", "UnixMicro", "Date", "ParseDuration", "Parse":
					default:
						unsupported(in.fset, n.Pos(), "time."+obj.Name())
					}
				case *types.TypeName:
					switch obj.Name() {
					case "Duration", "Time", "Month", "Weekday":
					default:
						unsupported(in.fset, n.Pos(), "time."+obj.Name())
					}
				}
				return
			case "runtime":
				if _, ok := obj.(*types.Func); ok && obj.Name() != "Gosched" {
					switch obj.Name() {
					case "Goexit", "LockOSThread", "UnlockOSThread", "GOMAXPROCS", "NumGoroutine":
						unsupported(in.fset, n.Pos(), "runtime."+obj.Name())
					}
				}
				return
			case "context", "os/signal":
				if _, isType := obj.(*types.TypeName); !isType {
					unsupported(in.fset, n.Pos(), path+"."+obj.Name()+" (channels closed or fed outside the simulator)")
				}
				return
			case "crypto/rand":
				if v, ok := obj.(*types.Var); ok && v.Name() == "Reader" {
					st.Rewrites["rand_reader"]++
					c.Replace(in.call("RandReader"))
					return
				}
			}
		}
	}
	if m := in.modes[n]; m != modeNone {
		in.replaceAccess(c, n, m)
	}
}

func (in *instr) goStmt(c *astutil.Cursor, n *ast.GoStmt) {
	st.Rewrites["go"]++
	info := in.goInfo[n]
	callee := n.Call.Fun
	var lhs, rhs []ast.Expr
	if info.hoistFun {
		id := in.fresh("F")
		lhs, rhs = append(lhs, id), append(rhs, callee)
		callee = id
	}
	var args []ast.Expr
	for i, a := range n.Call.Args {
		if i < len(info.keepArg) && info.keepArg[i] {
			args = append(args, a)
			continue
		}
		id := in.fresh("A")
		lhs, rhs = append(lhs, id), append(rhs, a)
		args = append(args, id)
	}
	inner := &ast.CallExpr{Fun: callee, Args: args, Ellipsis: n.Call.Ellipsis}
	if n.Call.Ellipsis != token.NoPos {
		inner.Ellipsis = 1
	}
	lit := &ast.FuncLit{Type: &ast.FuncType{Params: &ast.FieldList{}}, Body: &ast.BlockStmt{List: []ast.Stmt{&ast.ExprStmt{X: inner}}}}
	var pre []ast.Stmt
	if len(lhs) > 0 {
		// ONE tuple assignment: function value and arguments are evaluated in
		// the order in which the go statement evaluates them
		pre = append(pre, &ast.AssignStmt{Lhs: lhs, Tok: token.DEFINE, Rhs: rhs})
	}
	pre = append(pre, &ast.ExprStmt{X: in.call("Go", lit)})
	c.Replace(&ast.BlockStmt{List: pre})
}

type goHoist struct {
	hoistFun bool
	keepArg  []bool
}

// analyseGo decides, on the ORIGINAL syntax (type information is keyed by it),
// what a go statement's rewrite must hoist.
func (in *instr) analyseGo(f *ast.File) {
	in.goInfo = map[*ast.GoStmt]goHoist{}
	ast.Inspect(f, func(nn ast.Node) bool {
		n, ok := nn.(*ast.GoStmt)
		if !ok {
			return true
		}
		h := goHoist{hoistFun: true}
		switch fx := stripValue(n.Call.Fun).(type) {
		case *ast.FuncLit:
			h.hoistFun = false
		case *ast.Ident:
			if _, ok := in.info.Uses[fx].(*types.Func); ok {
				h.hoistFun = false
			}
			if _, ok := in.info.Uses[fx].(*types.Builtin); ok {
				h.hoistFun = false
			}
		case *ast.SelectorExpr:
			if _, isSel := in.info.Selections[fx]; !isSel {
				h.hoistFun = false // pkg.Func
			}
		case *ast.IndexExpr:
			// f[T] (explicit instantiation) is not a value to hoist; m[k] and a[i] are
			if tv, ok := in.info.Types[fx.X]; ok {
				if _, isSig := tv.Type.Underlying().(*types.Signature); isSig {
					h.hoistFun = false
				}
			}
		case *ast.IndexListExpr:
			h.hoistFun = false
		}
		for _, a := range n.Call.Args {
			tv, ok := in.info.Types[a]
			keep := false
			switch {
			case !ok:
			case tv.Value != nil || tv.IsNil():
				keep = true // constants keep their untyped flexibility
			default:
				if _, isTuple := tv.Type.(*types.Tuple); isTuple {
					unsupported(in.fset, a.Pos(), "go statement whose argument is a multi-value call")
					keep = true
				} else if b, isBasic := tv.Type.(*types.Basic); isBasic && b.Info()&types.IsUntyped != 0 {
					unsupported(in.fset, a.Pos(), "go statement with an untyped non-constant argument")
					keep = true
				}
			}
			h.keepArg = append(h.keepArg, keep)
		}
		in.goInfo[n] = h
		return true
	})
}

// isConstRewritten: literal arguments need no hoisting (and would lose their
// untyped-constant flexibility if hoisted).
func (in *instr) isConstRewritten(e ast.Expr) bool {
	switch x := e.(type) {
	case *ast.BasicLit:
		return true
	case *ast.Ident:
		return x.Name == "nil" || x.Name == "true" || x.Name == "false" || in.isConst(x)
	case *ast.UnaryExpr:
		return in.isConstRewritten(x.X) && x.Op != token.ARROW && x.Op != token.AND
	case *ast.ParenExpr:
		return in.isConstRewritten(x.X)
	}
	return in.isConst(e)
}

func (in *instr) rangeChan(c *astutil.Cursor, n *ast.RangeStmt) {
	st.Rewrites["range_chan"]++
	ch := in.fresh("C")
	ok := in.fresh("Ok")
	tmp := in.fresh("T")
	brk := &ast.IfStmt{Cond: &ast.UnaryExpr{Op: token.NOT, X: ok}, Body: &ast.BlockStmt{List: []ast.Stmt{&ast.BranchStmt{Tok: token.BREAK}}}}
	// the original body keeps its own block (it may redeclare the key)
	inner := &ast.BlockStmt{List: n.Body.List}
	var body []ast.Stmt
	switch {
	case n.Key == nil:
		body = []ast.Stmt{
			&ast.AssignStmt{Lhs: []ast.Expr{ast.NewIdent("_"), ok}, Tok: token.DEFINE, Rhs: []ast.Expr{in.call("Recv2", ch)}},
			brk, inner,
		}
	case n.Tok == token.ASSIGN:
		// `for x = range ch`: x keeps its last value when the channel is closed
		body = []ast.Stmt{
			&ast.AssignStmt{Lhs: []ast.Expr{tmp, ok}, Tok: token.DEFINE, Rhs: []ast.Expr{in.call("Recv2", ch)}},
			brk,
			&ast.AssignStmt{Lhs: []ast.Expr{n.Key}, Tok: token.ASSIGN, Rhs: []ast.Expr{tmp}},
			inner,
		}
	default:
		body = []ast.Stmt{
			&ast.AssignStmt{Lhs: []ast.Expr{n.Key, ok}, Tok: token.DEFINE, Rhs: []ast.Expr{in.call("Recv2", ch)}},
			brk, inner,
		}
	}
	c.Replace(&ast.ForStmt{Init: &ast.AssignStmt{Lhs: []ast.Expr{ch}, Tok: token.DEFINE, Rhs: []ast.Expr{n.X}}, Body: &ast.BlockStmt{List: body}})
}

func (in *instr) selectStmt(c *astutil.Cursor, n *ast.SelectStmt) {
	_, labeled := c.Parent().(*ast.LabeledStmt)
	st.Rewrites["select"]++
	var pre []ast.Stmt
	var cases []ast.Expr
	var clauses []ast.Stmt
	hasDefault := false
	idx := 0
	for _, cl := range n.Body.List {
		cc := cl.(*ast.CommClause)
		if cc.Comm == nil {
			hasDefault = true
			clauses = append(clauses, &ast.CaseClause{List: []ast.Expr{intLit(-1)}, Body: cc.Body})
			continue
		}
		ch := in.fresh("C")
		var first ast.Stmt
		switch s := cc.Comm.(type) {
		case *ast.SendStmt:
			pre = append(pre, &ast.AssignStmt{Lhs: []ast.Expr{ch}, Tok: token.DEFINE, Rhs: []ast.Expr{s.Chan}})
			var val ast.Expr = s.Value
			if !in.isConstRewritten(s.Value) {
				v := in.fresh("V")
				pre = append(pre, &ast.AssignStmt{Lhs: []ast.Expr{v}, Tok: token.DEFINE, Rhs: []ast.Expr{s.Value}})
				val = v
			}
			if in.sendAny[s] {
				cases = append(cases, in.call("SendCaseAny", ch, val))
				first = &ast.ExprStmt{X: in.call("SelSendAny", ch, val)}
			} else {
				cases = append(cases, in.call("SendCase", ch, val))
				first = &ast.ExprStmt{X: in.call("SelSend", ch, val)}
			}
		case *ast.ExprStmt:
			u := stripValue(s.X).(*ast.UnaryExpr)
			pre = append(pre, &ast.AssignStmt{Lhs: []ast.Expr{ch}, Tok: token.DEFINE, Rhs: []ast.Expr{u.X}})
			cases = append(cases, in.call("RecvCase", ch))
			first = &ast.ExprStmt{X: in.call("SelRecv", ch)}
		case *ast.AssignStmt:
			u := stripValue(s.Rhs[0]).(*ast.UnaryExpr)
			pre = append(pre, &ast.AssignStmt{Lhs: []ast.Expr{ch}, Tok: token.DEFINE, Rhs: []ast.Expr{u.X}})
			cases = append(cases, in.call("RecvCase", ch))
			fn := "SelRecv"
			if len(s.Lhs) == 2 {
				fn = "SelRecv2"
			}
			first = &ast.AssignStmt{Lhs: s.Lhs, Tok: s.Tok, Rhs: []ast.Expr{in.call(fn, ch)}}
		}
		body := append([]ast.Stmt{first}, cc.Body...)
		clauses = append(clauses, &ast.CaseClause{List: []ast.Expr{intLit(idx)}, Body: body})
		idx++
	}
	// A select whose clauses all terminate is a terminating statement; keep the
	// switch one too by giving it a (never taken) default clause that panics.
	clauses = append(clauses, &ast.CaseClause{Body: []ast.Stmt{&ast.ExprStmt{X: &ast.CallExpr{Fun: ast.NewIdent("panic"), Args: []ast.Expr{strLit("simrt: select chose no clause")}}}}})
	hd := ast.NewIdent("false")
	if hasDefault {
		hd = ast.NewIdent("true")
	}
	args := append([]ast.Expr{hd}, cases...)
	sw := &ast.SwitchStmt{Tag: in.call("Select", args...), Body: &ast.BlockStmt{List: clauses}}
	blk := &ast.BlockStmt{List: append(append([]ast.Stmt{}, pre...), sw)}
	if labeled {
		// the enclosing LabeledStmt is rewritten when it is left (post order): the
		// label has to sit on the switch, which is what `break L` must refer to
		in.labeledSelect[blk] = pre
	}
	c.Replace(blk)
}

// fileResetVars / fileReset produce the source of a function, appended to the
// rewritten file, that re-evaluates the initialiser of every package-level
// variable declared in the file.  The variables are chosen before the rewrite
// (type information is keyed by the original nodes); the initialisers are
// printed after it, so the text uses exactly the imports the rewritten file
// has.  Re-running initialisers puts lazily filled caches and registries back
// into their cold, first-use state.
type resetVar struct {
	names []string
	value ast.Expr // the ORIGINAL initialiser: the key of types.Info.InitOrder
	spec  *ast.ValueSpec
	idx   int // printed after the rewrite as spec.Values[idx]
	first *types.Var
}

func (in *instr) fileResetVars(f *ast.File) []resetVar {
	var out []resetVar
	for _, d := range f.Decls {
		gd, ok := d.(*ast.GenDecl)
		if !ok || gd.Tok != token.VAR {
			continue
		}
		for _, sp := range gd.Specs {
			vs := sp.(*ast.ValueSpec)
			if len(vs.Values) == 0 {
				continue
			}
			if len(vs.Values) == 1 && len(vs.Names) > 1 {
				// var a, b = f(): one initialiser for all of them
				rv := resetVar{value: vs.Values[0], spec: vs, idx: 0}
				for _, name := range vs.Names {
					rv.names = append(rv.names, name.Name)
					if obj, _ := in.info.Defs[name].(*types.Var); obj != nil && rv.first == nil {
						rv.first = obj
					}
					in.handledVars[name.Name] = true
				}
				if rv.first != nil {
					out = append(out, rv)
				}
				continue
			}
			for i, name := range vs.Names {
				obj, _ := in.info.Defs[name].(*types.Var)
				if obj == nil && name.Name == "_" {
					// blank variables have no object; they are found by their initialiser
					out = append(out, resetVar{names: []string{"_"}, value: vs.Values[i], spec: vs, idx: i})
					continue
				}
				if obj == nil {
					continue
				}
				if _, isFunc := obj.Type().Underlying().(*types.Signature); isFunc {
					continue
				}
				out = append(out, resetVar{names: []string{name.Name}, value: vs.Values[i], spec: vs, idx: i, first: obj})
				in.handledVars[name.Name] = true
			}
		}
	}
	return out
}

// fileReset prints one function per initialiser (SimReset calls them in the
// package's initialisation order, which may cross files) and turns every
// init() of the file into a named function that SimReset can run again.
func (in *instr) fileReset(f *ast.File, vars []resetVar) string {
	var b strings.Builder
	for _, v := range vars {
		var eb bytes.Buffer
		if err := format.Node(&eb, in.fset, v.spec.Values[v.idx]); err != nil {
			continue
		}
		fn := fmt.Sprintf("simResetInit%d", in.resetCount)
		in.resetCount++
		in.resetByExpr[v.value] = fn
		fmt.Fprintf(&b, "\nfunc %s() {\n\t%s = %s\n}\n", fn, strings.Join(v.names, ", "), eb.String())
	}
	return b.String()
}

// renameInits: func init() { body } becomes func simInitN() { body } plus
// func init() { simInitN() }, so that a cold start can replay it.
func (in *instr) renameInits(f *ast.File) {
	var extra []ast.Decl
	for _, d := range f.Decls {
		fd, ok := d.(*ast.FuncDecl)
		if !ok || fd.Recv != nil || fd.Name.Name != "init" || fd.Body == nil {
			continue
		}
		name := fmt.Sprintf("simInit%d", len(in.initFuncs))
		in.initFuncs = append(in.initFuncs, name)
		fd.Name = ast.NewIdent(name)
		extra = append(extra, &ast.FuncDecl{
			Name: ast.NewIdent("init"),
			Type: &ast.FuncType{Params: &ast.FieldList{}},
			Body: &ast.BlockStmt{List: []ast.Stmt{&ast.ExprStmt{X: &ast.CallExpr{Fun: ast.NewIdent(name)}}}},
		})
	}
	f.Decls = append(f.Decls, extra...)
}

// writeReset generates SimReset(), which puts the package-level state of the
// package back into its initial condition so that every simulated run starts
// from first use.
func (in *instr) writeReset(dir string) {
	var b strings.Builder
	fmt.Fprintf(&b, "package %s\n\n", in.pkg.Name)
	var stmts []string
	needSimrt := false
	for _, f := range in.pkg.Syntax {
		for _, d := range f.Decls {
			gd, ok := d.(*ast.GenDecl)
			if !ok || gd.Tok != token.VAR {
				continue
			}
			for _, sp := range gd.Specs {
				vs := sp.(*ast.ValueSpec)
				for i, name := range vs.Names {
					if name.Name == "_" || in.handledVars[name.Name] {
						continue
					}
					obj, _ := in.info.Defs[name].(*types.Var)
					if obj == nil {
						continue
					}
					if len(vs.Values) == 0 {
						// declared without an initialiser: back to the zero value,
						// whatever the type (locks, atomics, maps, pointers, ...)
						stmts = append(stmts, fmt.Sprintf("simrt.ResetZero(&%s)", name.Name))
						needSimrt = true
						continue
					}
					if len(vs.Values) != len(vs.Names) {
						continue
					}
					switch v := vs.Values[i].(type) {
					case *ast.CompositeLit:
						tv := in.info.Types[v]
						switch tv.Type.Underlying().(type) {
						case *types.Map, *types.Slice:
							if len(v.Elts) == 0 {
								var eb bytes.Buffer
								format.Node(&eb, in.fset, v)
								if !strings.Contains(eb.String(), ".") {
									stmts = append(stmts, fmt.Sprintf("%s = %s", name.Name, eb.String()))
								}
							}
						}
					case *ast.BasicLit:
						stmts = append(stmts, fmt.Sprintf("%s = %s", name.Name, v.Value))
					}
				}
			}
		}
	}
	if needSimrt {
		fmt.Fprintf(&b, "import simrt %q\n\n", simrtPath)
	}
	b.WriteString("// SimReset restores the package-level state to its initial condition.\nfunc SimReset() {\n")
	for _, s := range stmts {
		b.WriteString("\t" + s + "\n")
	}
	// initialisers in the order in which the package initialises them, then
	// the init functions in the order in which the files were presented
	done := map[string]bool{}
	for _, ini := range in.info.InitOrder {
		if fn, ok := in.resetByExpr[ini.Rhs]; ok && !done[fn] {
			done[fn] = true
			b.WriteString("\t" + fn + "()\n")
		}
	}
	var rest []string
	for _, fn := range in.resetByExpr {
		if !done[fn] {
			rest = append(rest, fn)
		}
	}
	sort.Strings(rest)
	for _, fn := range rest {
		b.WriteString("\t" + fn + "()\n")
	}
	for _, fn := range in.initFuncs {
		b.WriteString("\t" + fn + "()\n")
	}
	b.WriteString("}\n")
	os.WriteFile(filepath.Join(dir, "zz_simreset.go"), []byte(b.String()), 0o644)
}

func (in *instr) qualifier(f *ast.File) types.Qualifier {
	return func(p *types.Package) string {
		if p == in.pkg.Types {
			return ""
		}
		for _, imp := range f.Imports {
			path, _ := strconv.Unquote(imp.Path.Value)
			if path == p.Path() {
				if imp.Name != nil {
					return imp.Name.Name
				}
				return p.Name()
			}
		}
		return p.Name()
	}
}
