#!/bin/bash
# validate_seed.sh <seed-dir> <ID> [tier]: independently confirm a seeded change
# (suite passes with it, demo fails with it and passes without) in a fresh
# worktree, then run the named check against a scratch copy carrying the patch.
set -u
export GOFLAGS=-mod=mod GOPROXY=off GOSUMDB=off GOTOOLCHAIN=local
seed="$(realpath "$1")"; id="$2"; tier="${3:-quick}"
name="val-$id-$$"
wt="/tmp/$name"
git -C /repo worktree add -q --detach "$wt" HEAD || exit 3
trap 'git -C /repo worktree remove --force "$wt" >/dev/null 2>&1; rm -rf "$wt"' EXIT
dest=$(python3 -c "import json;print(json.load(open('$seed/meta.json'))['demo_dest'])")
cmd=$(python3 -c "import json;print(json.load(open('$seed/meta.json'))['demo_cmd'])" | sed -E "s#/tmp/wt[0-9]*-[A-Z][0-9A-Za-z]*#$wt#g")
demo=$(ls "$seed" | grep -E 'demo.*\.go$|^demo$' | head -1)
mkdir -p "$wt/$(dirname "$dest")"
if [ -d "$seed/$demo" ]; then cp -r "$seed/$demo" "$wt/$dest"; else cp "$seed/$demo" "$wt/$dest"; fi
(cd "$wt" && timeout 600 bash -c "$cmd") > /tmp/$name.clean.log 2>&1; rc_clean=$?
git -C "$wt" apply "$seed/patch.diff" || { echo "SEED: patch does not apply"; exit 3; }
mv "$wt/$dest" "/tmp/$name.demo.keep"
(cd "$wt/v4" && go build ./... && timeout 900 go test -vet=off -count=1 -timeout 600s ./...) > /tmp/$name.suite.log 2>&1; rc_suite=$?
mv "/tmp/$name.demo.keep" "$wt/$dest"
(cd "$wt" && timeout 600 bash -c "$cmd") > /tmp/$name.patched.log 2>&1; rc_patched=$?
echo "SEED $(basename $(dirname $(dirname "$seed")))/$(basename "$seed"): demo_without_patch=$([ $rc_clean = 0 ] && echo pass || echo FAIL) suite_with_patch=$([ $rc_suite = 0 ] && echo pass || echo FAIL) demo_with_patch=$([ $rc_patched = 0 ] && echo PASS-unexpected || echo fails)"
MUT_LINES=4 /verif/tools/run_mutant.sh "$seed/patch.diff" "$id" "$tier"
rm -f /tmp/$name.*.log
