package simrt

import (
	"fmt"
	"os"
	"unsafe"
)

// ---- channels --------------------------------------------------------------

type chanState struct {
	ord     int
	cap     int
	closed  bool
	closeVC vclock
	sendVCs []vclock // one per buffered message, FIFO
	recvVCs []vclock // one per completed receive, indexed by receive number
	nsend   int
	nrecv   int
	// unbuffered rendezvous bookkeeping
	waitSend []*task
	waitRecv []*task
}

func chanPtr[C any](ch C) unsafe.Pointer {
	return *(*unsafe.Pointer)(unsafe.Pointer(&ch))
}

func (s *Sim) chanState(p unsafe.Pointer, capacity int) *chanState {
	cs := s.chans[p]
	if cs == nil {
		cs = &chanState{ord: s.ord(), cap: capacity}
		s.chans[p] = cs
	}
	return cs
}

// modelMismatch / unsupported end the process with status 2 ("cannot decide").
// They must never surface as a panic of a task, which an oracle could mistake
// for a panic of the code under test.
func modelMismatch(what string) {
	fmt.Fprintln(os.Stderr, "CANNOT-DECIDE: simrt model mismatch: "+what)
	os.Exit(2)
}

func unsupported(what string) {
	fmt.Fprintln(os.Stderr, "CANNOT-DECIDE: unsupported primitive: "+what)
	os.Exit(2)
}

// Send is `ch <- v`.
func Send[T any](ch chan<- T, v T) {
	s := S
	if s == nil {
		ch <- v
		return
	}
	if s.aborting {
		return
	}
	t := s.cur
	if ch == nil {
		t.pend = op{kind: OpSend, enabled: func() bool { return false }}
		s.yield(t)
		return
	}
	if cap(ch) == 0 {
		sendUnbuffered(s, t, ch, v)
		return
	}
	cs := s.chanState(chanPtr(ch), cap(ch))
	t.pend = op{kind: OpSend, obj: cs.ord, ch: cs, srcVar: t.lastRead,
		enabled: func() bool { return cs.closed || len(ch) < cap(ch) }}
	s.yield(t)
	if cs.closed {
		ch <- v // panics: send on closed channel
		return
	}
	sendPerform(s, t, cs, ch, v)
}

func sendPerform[T any](s *Sim, t *task, cs *chanState, ch chan<- T, v T) {
	// k-th receive happens before the (k+cap)-th send completes.
	if n := cs.nsend - cs.cap; n >= 0 && n < len(cs.recvVCs) {
		t.vc.join(cs.recvVCs[n])
	}
	select {
	case ch <- v:
	default:
		modelMismatch("send would block")
	}
	cs.sendVCs = append(cs.sendVCs, t.vc.copy())
	cs.nsend++
	t.vc.tick(t.id)
}

// Recv is `<-ch`.
func Recv[T any](ch <-chan T) T {
	v, _ := Recv2(ch)
	return v
}

// Recv2 is `v, ok := <-ch`.
func Recv2[T any](ch <-chan T) (T, bool) {
	s := S
	if s == nil {
		v, ok := <-ch
		return v, ok
	}
	var zero T
	if s.aborting {
		return zero, false
	}
	t := s.cur
	if ch == nil {
		t.pend = op{kind: OpRecv, enabled: func() bool { return false }}
		s.yield(t)
		return zero, false
	}
	if cap(ch) == 0 {
		return recvUnbuffered(s, t, ch)
	}
	cs := s.chanState(chanPtr(ch), cap(ch))
	t.pend = op{kind: OpRecv, obj: cs.ord, ch: cs, srcVar: t.lastRead,
		enabled: func() bool { return cs.closed || len(ch) > 0 }}
	s.yield(t)
	return recvPerform(s, t, cs, ch)
}

func recvPerform[T any](s *Sim, t *task, cs *chanState, ch <-chan T) (T, bool) {
	select {
	case v, ok := <-ch:
		if ok {
			if len(cs.sendVCs) > 0 {
				t.vc.join(cs.sendVCs[0])
				cs.sendVCs = cs.sendVCs[1:]
			}
			cs.recvVCs = append(cs.recvVCs, t.vc.copy())
			cs.nrecv++
		} else {
			t.vc.join(cs.closeVC)
		}
		t.vc.tick(t.id)
		return v, ok
	default:
		modelMismatch("receive would block")
	}
	panic("unreachable")
}

// ---- unbuffered channels: rendezvous handled entirely in the model ------------
//
// The real channel is never used for data (one task cannot perform both halves
// of a rendezvous); the value travels through the task records.  Either side
// may complete the exchange when it is scheduled and finds its partner parked.

// parkedPartner finds a task parked on the other half of an unbuffered
// exchange on cs: kind says what the partner must be doing (OpSend / OpRecv).
// The partner may be parked in a plain operation or in a select with a matching
// case; in the latter case the index of that case is returned as well.
func (s *Sim) parkedPartner(self *task, cs *chanState, kind OpKind) *task {
	u, _ := s.parkedPartnerCase(self, cs, kind)
	return u
}

func (s *Sim) parkedPartnerCase(self *task, cs *chanState, kind OpKind) (*task, int) {
	for _, u := range s.tasks {
		if u == self || u.finished {
			continue
		}
		if u.pend.kind == kind && u.pend.ch == cs {
			if kind == OpSend && !u.sendTaken {
				return u, -1
			}
			if kind == OpRecv && !u.xferReady {
				return u, -1
			}
		}
		if u.pend.kind == OpSelect && u.selForced < 0 && u.selCases != nil {
			for i, c := range u.selCases {
				if c.cs == cs && c.unbuf && c.send == (kind == OpSend) {
					return u, i
				}
			}
		}
	}
	return nil, -1
}

func rendezvousClocks(a, b *task) {
	a.vc.join(b.vc)
	b.vc.join(a.vc)
	a.vc.tick(a.id)
	b.vc.tick(b.id)
}

func sendUnbuffered[T any](s *Sim, t *task, ch chan<- T, v T) {
	cs := s.chanState(chanPtr(ch), 0)
	t.sendVal = &v
	t.sendTaken = false
	t.pend = op{kind: OpSend, obj: cs.ord, ch: cs, srcVar: t.lastRead,
		enabled: func() bool { return t.sendTaken || cs.closed || s.parkedPartner(t, cs, OpRecv) != nil }}
	s.yield(t)
	if t.sendTaken {
		return
	}
	if cs.closed {
		panic("send on closed channel")
	}
	handOver(s, t, cs, &v)
}

// handOver gives *vp to a parked receiver (plain or select) on cs.
func handOver[T any](s *Sim, t *task, cs *chanState, vp *T) {
	r, idx := s.parkedPartnerCase(t, cs, OpRecv)
	if r == nil {
		modelMismatch("unbuffered send without a receiver")
	}
	r.xferVal = vp
	r.xferReady = true
	if idx >= 0 {
		r.selForced = idx
	}
	t.sendTaken = true
	rendezvousClocks(t, r)
}

// takeOver takes the value of a parked sender (plain or select) on cs.
func takeOver[T any](s *Sim, t *task, cs *chanState) (T, bool) {
	var zero T
	snd, idx := s.parkedPartnerCase(t, cs, OpSend)
	if snd == nil {
		return zero, false
	}
	var v T
	if idx >= 0 {
		v = *(snd.selCases[idx].sendPtr.(*T))
		snd.selForced = idx
	} else {
		v = *(snd.sendVal.(*T))
	}
	snd.sendTaken = true
	rendezvousClocks(t, snd)
	return v, true
}

func recvUnbuffered[T any](s *Sim, t *task, ch <-chan T) (T, bool) {
	var zero T
	cs := s.chanState(chanPtr(ch), 0)
	t.xferReady = false
	t.pend = op{kind: OpRecv, obj: cs.ord, ch: cs, srcVar: t.lastRead,
		enabled: func() bool { return t.xferReady || cs.closed || s.parkedPartner(t, cs, OpSend) != nil }}
	s.yield(t)
	if t.xferReady {
		return *(t.xferVal.(*T)), true
	}
	if v, ok := takeOver[T](s, t, cs); ok {
		return v, true
	}
	if cs.closed {
		t.vc.join(cs.closeVC)
		t.vc.tick(t.id)
		return zero, false
	}
	modelMismatch("unbuffered receive without a sender")
	return zero, false
}

// Close is `close(ch)`.
func Close[T any](ch chan<- T) {
	s := S
	if s == nil {
		close(ch)
		return
	}
	if s.aborting {
		return
	}
	t := s.cur
	if ch == nil {
		close(ch) // panics
	}
	cs := s.chanState(chanPtr(ch), cap(ch))
	t.pend = op{kind: OpClose, obj: cs.ord, ch: cs, srcVar: t.lastRead}
	s.yield(t)
	for _, u := range s.tasks {
		if u != t && !u.finished && u.pend.ch == cs {
			if u.pend.kind == OpRecv {
				s.probes["close_while_receiver_parked"]++
			} else if u.pend.kind == OpSend {
				s.probes["close_while_sender_parked"]++
			}
		}
	}
	close(ch) // panics if already closed, like the real thing
	cs.closed = true
	cs.closeVC = t.vc.copy()
	t.vc.tick(t.id)
}

// SelCase is one communication clause of a select statement.
type SelCase struct {
	send    bool
	unbuf   bool
	cs      *chanState
	ready   func() bool
	sendPtr any // *T of the value of a send case (unbuffered exchange)
}

// RecvCase describes `case ... <-ch`.
func RecvCase[T any](ch <-chan T) SelCase {
	s := S
	if s == nil || s.aborting || ch == nil {
		return SelCase{ready: func() bool { return false }}
	}
	cs := s.chanState(chanPtr(ch), cap(ch))
	if cap(ch) == 0 {
		return SelCase{unbuf: true, cs: cs, ready: func() bool { return cs.closed || s.parkedPartner(s.cur, cs, OpSend) != nil }}
	}
	return SelCase{cs: cs, ready: func() bool { return cs.closed || len(ch) > 0 }}
}

// SendCase describes `case ch <- v`.
func SendCase[T any](ch chan<- T, v T) SelCase {
	s := S
	if s == nil || s.aborting || ch == nil {
		return SelCase{send: true, ready: func() bool { return false }}
	}
	cs := s.chanState(chanPtr(ch), cap(ch))
	if cap(ch) == 0 {
		return SelCase{send: true, unbuf: true, cs: cs, sendPtr: &v, ready: func() bool { return cs.closed || s.parkedPartner(s.cur, cs, OpRecv) != nil }}
	}
	return SelCase{send: true, cs: cs, ready: func() bool { return cs.closed || len(ch) < cap(ch) }}
}

// Select parks until one of the cases can proceed (or at once when there is a
// default clause) and returns the index of the chosen case, -1 for default.
// The chosen case must then be performed with SelRecv/SelRecv2/SelSend.
func Select(hasDefault bool, cases ...SelCase) int {
	s := S
	if s == nil {
		panic("simrt: Select outside a simulation")
	}
	if s.aborting {
		return -1
	}
	t := s.cur
	obj := 0
	if len(cases) > 0 && cases[0].cs != nil {
		obj = cases[0].cs.ord
	}
	t.selCases = cases
	t.selForced = -1
	t.xferReady = false
	t.sendTaken = false
	t.pend = op{kind: OpSelect, obj: obj, srcVar: t.lastRead, enabled: func() bool {
		if hasDefault || t.selForced >= 0 {
			return true
		}
		for _, c := range cases {
			if c.ready() {
				return true
			}
		}
		return false
	}}
	if len(cases) > 0 {
		t.pend.ch = cases[0].cs
	}
	s.yield(t)
	t.selCases = nil
	if t.selForced >= 0 {
		// a partner completed an unbuffered exchange with this task while it
		// was parked; the generated code performs the (already done) operation
		return t.selForced
	}
	var ready []int
	for i, c := range cases {
		if c.ready() {
			ready = append(ready, i)
		}
	}
	if len(ready) == 0 {
		// the default clause was taken: a polling loop; its next scheduling
		// point lets the others run
		t.stepAsideNext = true
		return -1
	}
	if len(ready) == 1 {
		return ready[0]
	}
	i := s.draw(len(ready), func() int { return int(s.rng.next() % uint64(len(ready))) })
	return ready[i]
}

// SelRecv2 performs the receive of a chosen select case.
func SelRecv2[T any](ch <-chan T) (T, bool) {
	s := S
	var zero T
	if s == nil || s.aborting {
		return zero, false
	}
	t := s.cur
	cs := s.chanState(chanPtr(ch), cap(ch))
	if cap(ch) == 0 {
		if t.xferReady {
			t.xferReady = false
			t.selForced = -1
			return *(t.xferVal.(*T)), true
		}
		if v, ok := takeOver[T](s, t, cs); ok {
			return v, true
		}
		if cs.closed {
			t.vc.join(cs.closeVC)
			t.vc.tick(t.id)
			return zero, false
		}
		modelMismatch("select chose an unbuffered receive that cannot proceed")
	}
	return recvPerform(s, t, cs, ch)
}

// SelRecv performs the receive of a chosen select case.
func SelRecv[T any](ch <-chan T) T {
	v, _ := SelRecv2(ch)
	return v
}

// SelSend performs the send of a chosen select case.
func SelSend[T any](ch chan<- T, v T) {
	s := S
	if s == nil || s.aborting {
		return
	}
	t := s.cur
	cs := s.chanState(chanPtr(ch), cap(ch))
	if cap(ch) == 0 {
		if t.sendTaken {
			t.sendTaken = false
			t.selForced = -1
			return
		}
		if cs.closed {
			panic("send on closed channel")
		}
		handOver(s, t, cs, &v)
		t.sendTaken = false
		return
	}
	if cs.closed {
		ch <- v // panics
		return
	}
	sendPerform(s, t, cs, ch, v)
}

// ---- mutexes ---------------------------------------------------------------

// Mutex replaces sync.Mutex in instrumented code.  Only one task runs at a
// time, so the lock is purely a model: who holds it and who may proceed.
type Mutex struct {
	gen   uint64
	ord   int
	held  bool
	owner int
	vc    vclock
}

func (m *Mutex) sync(s *Sim) {
	if m.gen != s.gen {
		*m = Mutex{gen: s.gen, ord: s.ord()}
	}
}

func (m *Mutex) Lock() {
	s := S
	if s == nil || s.aborting {
		return
	}
	m.sync(s)
	t := s.cur
	t.pend = op{kind: OpLock, obj: m.ord, enabled: func() bool { return !m.held }}
	s.yield(t)
	m.held = true
	m.owner = t.id
	t.vc.join(m.vc)
	t.vc.tick(t.id)
}

func (m *Mutex) TryLock() bool {
	s := S
	if s == nil || s.aborting {
		return true
	}
	m.sync(s)
	t := s.cur
	t.pend = op{kind: OpYield, obj: m.ord}
	s.yield(t)
	if m.held {
		t.stepAsideNext = true
		return false
	}
	m.held = true
	m.owner = t.id
	t.vc.join(m.vc)
	t.vc.tick(t.id)
	return true
}

func (m *Mutex) Unlock() {
	s := S
	if s == nil || s.aborting {
		return
	}
	m.sync(s)
	t := s.cur
	if !m.held {
		panic("sync: unlock of unlocked mutex")
	}
	m.held = false
	m.vc = t.vc.copy()
	t.vc.tick(t.id)
	s.logEvent(t.id, OpUnlock, m.ord)
}

// RWMutex replaces sync.RWMutex.
type RWMutex struct {
	gen     uint64
	ord     int
	writer  bool
	readers int
	wvc     vclock // released by the last writer
	rvc     vclock // join of all reader releases since
}

func (m *RWMutex) sync(s *Sim) {
	if m.gen != s.gen {
		*m = RWMutex{gen: s.gen, ord: s.ord()}
	}
}

func (m *RWMutex) Lock() {
	s := S
	if s == nil || s.aborting {
		return
	}
	m.sync(s)
	t := s.cur
	t.pend = op{kind: OpLock, obj: m.ord, enabled: func() bool { return !m.writer && m.readers == 0 }}
	s.yield(t)
	m.writer = true
	t.vc.join(m.wvc)
	t.vc.join(m.rvc)
	t.vc.tick(t.id)
}

func (m *RWMutex) Unlock() {
	s := S
	if s == nil || s.aborting {
		return
	}
	m.sync(s)
	t := s.cur
	if !m.writer {
		panic("sync: Unlock of unlocked RWMutex")
	}
	m.writer = false
	m.wvc = t.vc.copy()
	m.rvc = nil
	t.vc.tick(t.id)
	s.logEvent(t.id, OpUnlock, m.ord)
}

func (m *RWMutex) RLock() {
	s := S
	if s == nil || s.aborting {
		return
	}
	m.sync(s)
	t := s.cur
	t.pend = op{kind: OpRLock, obj: m.ord, enabled: func() bool { return !m.writer }}
	s.yield(t)
	m.readers++
	t.vc.join(m.wvc)
	t.vc.tick(t.id)
}

func (m *RWMutex) RUnlock() {
	s := S
	if s == nil || s.aborting {
		return
	}
	m.sync(s)
	t := s.cur
	if m.readers <= 0 {
		panic("sync: RUnlock of unlocked RWMutex")
	}
	m.readers--
	m.rvc.join(t.vc)
	t.vc.tick(t.id)
	s.logEvent(t.id, OpUnlock, m.ord)
}

// ---- wait group ------------------------------------------------------------

// WaitGroup replaces sync.WaitGroup and is what the harness passes as the
// library's Synchronized argument.
type WaitGroup struct {
	gen uint64
	ord int
	n   int
	vc  vclock
}

func (w *WaitGroup) sync(s *Sim) {
	if w.gen != s.gen {
		*w = WaitGroup{gen: s.gen, ord: s.ord()}
	}
}

func (w *WaitGroup) Add(delta int) {
	s := S
	if s == nil {
		w.n += delta
		return
	}
	if s.aborting {
		return
	}
	w.sync(s)
	t := s.cur
	w.n += delta
	if w.n < 0 {
		panic("sync: negative WaitGroup counter")
	}
	if delta < 0 {
		w.vc.join(t.vc)
		t.vc.tick(t.id)
	}
	s.logEvent(t.id, OpDone, w.ord)
}

func (w *WaitGroup) Done() { w.Add(-1) }

func (w *WaitGroup) Wait() {
	s := S
	if s == nil || s.aborting {
		return
	}
	w.sync(s)
	t := s.cur
	t.pend = op{kind: OpWait, obj: w.ord, enabled: func() bool { return w.n == 0 }}
	s.yield(t)
	t.vc.join(w.vc)
	t.vc.tick(t.id)
}

// Count reports the current counter (post-mortem inspection by oracles).
func (w *WaitGroup) Count() int { return w.n }

// Once replaces sync.Once.
type Once struct {
	m    Mutex
	done bool
}

func (o *Once) Do(f func()) {
	if s := S; s != nil && o.m.gen != s.gen {
		o.done = false
	}
	o.m.Lock()
	if !o.done {
		defer o.m.Unlock()
		defer func() { o.done = true }() // like sync.Once: done even if f panics
		f()
		return
	}
	o.m.Unlock()
}

// ---- additions: sends on channels of interface type, try-locks ---------------

// ifaceValue converts a value that is assignable to the interface type T.
func ifaceValue[T any](v any) T {
	if v == nil {
		var zero T
		return zero
	}
	return v.(T)
}

// SendAny is Send for `ch <- v` where the channel's element type is an
// interface and v has another (assignable) type: one T cannot be inferred for
// both operands of the generic Send.
func SendAny[T any](ch chan<- T, v any) { Send(ch, ifaceValue[T](v)) }

// SendCaseAny is SendCase for such a send inside a select.
func SendCaseAny[T any](ch chan<- T, v any) SelCase { return SendCase(ch, ifaceValue[T](v)) }

// SelSendAny is SelSend for such a send inside a select.
func SelSendAny[T any](ch chan<- T, v any) { SelSend(ch, ifaceValue[T](v)) }

func (m *RWMutex) TryLock() bool {
	s := S
	if s == nil || s.aborting {
		return true
	}
	m.sync(s)
	t := s.cur
	t.pend = op{kind: OpYield, obj: m.ord}
	s.yield(t)
	if m.writer || m.readers > 0 {
		t.stepAsideNext = true
		return false
	}
	m.writer = true
	t.vc.join(m.wvc)
	t.vc.join(m.rvc)
	t.vc.tick(t.id)
	return true
}

func (m *RWMutex) TryRLock() bool {
	s := S
	if s == nil || s.aborting {
		return true
	}
	m.sync(s)
	t := s.cur
	t.pend = op{kind: OpYield, obj: m.ord}
	s.yield(t)
	if m.writer {
		t.stepAsideNext = true
		return false
	}
	m.readers++
	t.vc.join(m.wvc)
	t.vc.tick(t.id)
	return true
}

type rlocker RWMutex

func (r *rlocker) Lock()   { (*RWMutex)(r).RLock() }
func (r *rlocker) Unlock() { (*RWMutex)(r).RUnlock() }

// RLocker returns a Locker whose Lock and Unlock are RLock and RUnlock.
func (m *RWMutex) RLocker() Locker { return (*rlocker)(m) }
