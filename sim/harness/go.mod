module verif.local/harness

go 1.23

require (
	github.com/anishathalye/porcupine v1.3.0
	github.com/craterdog/go-collection-framework/v4 v4.0.0
	verif.local/simrt v0.0.0
)

replace github.com/craterdog/go-collection-framework/v4 => ../v4

replace verif.local/simrt => ../simrt
