package main

import (
	"fmt"
	"regexp"
	"strconv"
	"strings"

	"verif.local/simrt"
)

type propC12 struct{}

func (propC12) ID() string { return "C12" }

func (propC12) Cases(tier string) int {
	if tier == "thorough" {
		return 400000
	}
	return 16000
}

type c12Desc struct {
	Class  string `json:"class"`
	Source string `json:"source"`
	Note   string `json:"note,omitempty"`
}

// c12Input is one malformed (or not) input with what the harness knows about it.
type c12Input struct {
	Class string
	Src   string
	Note  string
	// injection point of an illegal character (0 = none)
	InjLine, InjCol int
	// token-level knowledge: when true the diagnostic position is checked
	// against the harness's recogniser
	TokenLevel bool
	// DeepSet > 0: a valid Set whose two members are equal down to this depth
	DeepSet int
}

var illegalChars = []string{"#", "@", "~", "$", ";"}

func joinTokens(toks []htok) string {
	// render a token list back to text: single blanks between tokens, EOL as
	// newline; adjacent tokens never merge.
	var b strings.Builder
	for i, t := range toks {
		if t.Kind == "EOF" {
			break
		}
		if i > 0 && t.Kind != "EOL" && toks[i-1].Kind != "EOL" {
			b.WriteString(" ")
		}
		b.WriteString(t.Text)
	}
	return b.String()
}

func genC12Input(t *simrt.Tape, tier string) c12Input {
	base := genSentence(t, t.Choose(4) == 3)
	runes := []rune(base.Text)
	class := t.Choose(15)
	if class == 13 && t.Choose(200) != 0 {
		class = 14 // the huge inputs are expensive (the arrow under a 66 KB line is built quadratically): about one case in 3000
	}
	switch class {
	case 0: // prefix
		n := 0
		if len(runes) > 0 {
			n = t.Choose(len(runes))
		}
		return c12Input{Class: "prefix", Src: string(runes[:n])}
	case 1: // delete one character
		if len(runes) == 0 {
			return c12Input{Class: "delete", Src: ""}
		}
		i := t.Choose(len(runes))
		return c12Input{Class: "delete-char", Src: string(runes[:i]) + string(runes[i+1:])}
	case 2: // insert one character
		i := t.Choose(len(runes) + 1)
		pool := []rune("[](),:\n \"'0x1.+-eEnaT#\\")
		c := pool[t.Choose(len(pool))]
		return c12Input{Class: "insert-char", Src: string(runes[:i]) + string(c) + string(runes[i:])}
	case 3: // substitute one character
		if len(runes) == 0 {
			return c12Input{Class: "substitute", Src: "["}
		}
		i := t.Choose(len(runes))
		pool := []rune("[](),:\n \"'0x1.+-eEnaT#\\")
		c := pool[t.Choose(len(pool))]
		return c12Input{Class: "substitute-char", Src: string(runes[:i]) + string(c) + string(runes[i+1:])}
	case 4, 5: // token-level mutation: valid tokens in invalid orders
		toks := tokenize(base.Text)
		toks = toks[:len(toks)-1] // drop EOF
		if len(toks) == 0 {
			return c12Input{Class: "tokens", Src: ""}
		}
		nm := 1 + t.Choose(2)
		for m := 0; m < nm && len(toks) > 0; m++ {
			i := t.Choose(len(toks))
			switch t.Choose(4) {
			case 0: // delete
				toks = append(toks[:i:i], toks[i+1:]...)
			case 1: // duplicate
				toks = append(toks[:i+1:i+1], toks[i:]...)
			case 2: // swap with neighbour
				if i+1 < len(toks) {
					toks[i], toks[i+1] = toks[i+1], toks[i]
				}
			case 3: // insert a foreign token
				extra := []htok{{Kind: "delimiter", Text: "["}, {Kind: "delimiter", Text: "]"}, {Kind: "delimiter", Text: "("}, {Kind: "delimiter", Text: ")"},
					{Kind: "delimiter", Text: ":"}, {Kind: "delimiter", Text: ","}, {Kind: "EOL", Text: "\n"}, {Kind: "integer", Text: "5"}, {Kind: "type", Text: "List"}, {Kind: "nil", Text: "nil"}}
				e := extra[t.Choose(len(extra))]
				toks = append(toks[:i:i], append([]htok{e}, toks[i:]...)...)
			}
		}
		return c12Input{Class: "token-mutation", Src: joinTokens(append(toks, htok{Kind: "EOF"})), TokenLevel: true}
	case 6: // illegal character at a token boundary
		toks := tokenize(base.Text)
		i := t.Choose(len(toks))
		ch := illegalChars[t.Choose(len(illegalChars))]
		idx, _ := lineColToIndex(base.Text, toks[i].Line, toks[i].Col)
		src := string(runes[:idx]) + ch + string(runes[idx:])
		return c12Input{Class: "illegal-char-at-token-boundary", Src: src, InjLine: toks[i].Line, InjCol: toks[i].Col, TokenLevel: true}
	case 7: // item kind not matching the context, and mixed kinds
		variants := []string{
			"[1, 2](Catalog)", "[1, 2](Map)", "[\n    1\n    2\n](Catalog)\n", "[\"a\": 1](List)", "[\"a\": 1, 2](Catalog)", "[1, \"a\": 2](List)",
			"[\n    \"a\": 1\n    2\n](Map)\n", "[[1](List)](Catalog)", "[nil](Map)", "[1](Catalog)", "[ ](Catalog)", "[:](List)", "[:](Set)", "[1: 2](Set)",
			"[1: 2, 1: 3](Queue)", "[\"k\": [1, 2](Map)](Catalog)",
		}
		return c12Input{Class: "kind-mismatch", Src: variants[t.Choose(len(variants))], TokenLevel: true}
	case 8: // an error followed by a long tail of tokens
		tails := []int{0, 1, 14, 15, 16, 17, 18, 33, 100}
		n := tails[t.Choose(len(tails))]
		heads := []string{"[1 1", "[(", "[1, 2](Catalog", "[1, 2)", "[\n    1\n    2 3", "[nil: ", "[1, 2]]", "[1](Bag)", "]"}
		h := heads[t.Choose(len(heads))]
		var tail []string
		for i := 0; i < n; i++ {
			tail = append(tail, strconv.Itoa(i+2))
		}
		src := h
		if n > 0 {
			src += ", " + strings.Join(tail, ", ")
		}
		src += "](List)"
		return c12Input{Class: "error-with-long-tail", Src: src, Note: fmt.Sprintf("%d tokens after the error region", 2*n+5), TokenLevel: true}
	case 9: // deep nesting
		depths := []int{1, 5, 17, 50, 200, 2000}
		d := depths[t.Choose(len(depths))]
		if tier != "thorough" && d > 200 {
			d = 200
		}
		kind := t.Choose(4)
		switch kind {
		case 0:
			return c12Input{Class: "deep-nesting", Src: strings.Repeat("[", d) + " " + strings.Repeat("](List)", d), Note: fmt.Sprint("valid, depth ", d)}
		case 1:
			return c12Input{Class: "deep-nesting", Src: strings.Repeat("[", d), Note: fmt.Sprint("unclosed, depth ", d)}
		case 2:
			return c12Input{Class: "deep-nesting", Src: strings.Repeat("[1: ", d) + "nil" + strings.Repeat("](Catalog)", d), Note: fmt.Sprint("valid catalogs, depth ", d)}
		default:
			return c12Input{Class: "deep-nesting", Src: strings.Repeat("[", d) + "1" + strings.Repeat("](Set)", d-1) + "]", Note: fmt.Sprint("missing last context, depth ", d)}
		}
	case 10: // random runes and raw bytes
		n := t.Range(0, 24)
		pool := []string{"[", "]", "(", ")", ":", ",", "\n", " ", "\"", "'", "0", "1", "9", "x", ".", "+", "-", "e", "E", "i", "n", "l", "t", "r", "u", "f", "a", "s", "\\",
			"List", "Map", "nil", "true", "\x00", "\t", "\r", "\xff", "\xc3", "é", "😀", "#", "0x", "1.5", "'a'", "\"s\""}
		var b strings.Builder
		for i := 0; i < n; i++ {
			b.WriteString(pool[t.Choose(len(pool))])
		}
		return c12Input{Class: "random-bytes", Src: b.String()}
	case 11: // a long token (1..100 characters) at or near the error point: diagnostics quote and truncate the token text
		n := t.Range(1, 100)
		var tok string
		switch t.Choose(5) {
		case 0:
			tok = "1" + strings.Repeat("7", n-1) // out of range beyond 19 digits: rejected as a literal
		case 1:
			tok = "0x" + strings.Repeat("f", n)
		case 2:
			tok = `"` + strings.Repeat("s", n) + `"`
		case 3:
			tok = `"` + strings.Repeat(`\\`, n/2) + strings.Repeat("q", n%2) + `"`
		default:
			tok = `"` + strings.Repeat("é", n) + `"`
		}
		shapes := []string{"[%s %s](List)", "[1, 2]%s(List)", "[%s](List) %s", "[\n    %s %s\n](Set)\n", "[%s", "[1: %s %s](Catalog)", "%s"}
		sh := shapes[t.Choose(len(shapes))]
		src := strings.ReplaceAll(sh, "%s", tok)
		return c12Input{Class: "long-token", Src: src, Note: fmt.Sprintf("token of %d bytes", len(tok)), TokenLevel: true}
	case 13: // an error on or after a very long line, or beyond line 1000
		return hugeLineInput(t.Choose(4))
	case 12: // a missing end-of-line inside a multi-line sequence (two items on one line)
		toks := tokenize(base.Text)
		toks = toks[:len(toks)-1]
		var eols []int
		for i, k := range toks {
			if k.Kind == "EOL" && i > 0 && i+1 < len(toks) {
				eols = append(eols, i)
			}
		}
		if len(eols) == 0 {
			return c12Input{Class: "missing-EOL", Src: "[\n    [1](List) 2\n](Array)\n", TokenLevel: true}
		}
		i := eols[t.Choose(len(eols))]
		toks = append(toks[:i:i], toks[i+1:]...)
		return c12Input{Class: "missing-EOL", Src: joinTokens(append(toks, htok{Kind: "EOF"})), TokenLevel: true}
	default: // the valid document itself, and documents with trailing garbage
		if t.Choose(2) == 0 {
			return c12Input{Class: "valid", Src: base.Text, TokenLevel: true}
		}
		trail := []string{"x", "]", "[", "(List)", "1", "\n\n1", " nil", ","}
		return c12Input{Class: "trailing-garbage", Src: base.Text + trail[t.Choose(len(trail))], TokenLevel: true}
	}
}

// hugeLineInput: the four inputs with an error on or after a very long line, or
// far into the document.  They are also the first four cases of every batch, so
// that every run covers them whatever its seed.
func hugeLineInput(k int) c12Input {
	switch k {
	case 0:
		long := "\"" + strings.Repeat("x", 66000) + "\""
		return c12Input{Class: "huge-line", Src: "[" + long + " " + long + "](List)", Note: "two 66 KB literals on one line", TokenLevel: true}
	case 1:
		long := "\"" + strings.Repeat("y", 70000) + "\""
		return c12Input{Class: "huge-line", Src: "[\n    " + long + "\n    1 2\n](List)\n", Note: "error on the line after a 70 KB line", TokenLevel: true}
	case 2:
		var b strings.Builder
		b.WriteString("[\n")
		for k := 0; k < 1200; k++ {
			b.WriteString("    1\n")
		}
		b.WriteString("    2 3\n](List)\n")
		return c12Input{Class: "huge-line", Src: b.String(), Note: "error on line 1202", TokenLevel: true}
	default:
		return c12Input{Class: "huge-line", Src: "[" + strings.Repeat("1, ", 3000) + "](List)", Note: "error after 6000 tokens", TokenLevel: true}
	}
}

// stackMutations applies 1-3 further character-level mutations to an input
// (thorough tier): the token-level knowledge is lost, the general oracles remain.
func stackMutations(t *simrt.Tape, in c12Input) c12Input {
	runes := []rune(in.Src)
	pool := []rune("[](),:\n \"'0x1.+-eEnaT#\\")
	n := 1 + t.Choose(3)
	for k := 0; k < n; k++ {
		switch t.Choose(3) {
		case 0:
			if len(runes) > 0 {
				i := t.Choose(len(runes))
				runes = append(runes[:i:i], runes[i+1:]...)
			}
		case 1:
			i := t.Choose(len(runes) + 1)
			runes = append(runes[:i:i], append([]rune{pool[t.Choose(len(pool))]}, runes[i:]...)...)
		default:
			if len(runes) > 0 {
				runes[t.Choose(len(runes))] = pool[t.Choose(len(pool))]
			}
		}
	}
	return c12Input{Class: in.Class + "+stacked-mutations", Src: string(runes), Note: in.Note}
}

// deepSetInput: valid Sets whose two members are equal down to depth d; they
// follow the huge-line inputs in every batch.
var c12DeepSets = []struct {
	d     int
	inner string
	multi bool
}{{16, "List", false}, {17, "List", false}, {17, "Set", true}, {40, "List", true}}

func deepSetInput(k int) c12Input {
	c := c12DeepSets[k]
	s := deepSetOf(c.d, c.inner, c.multi)
	return c12Input{Class: "deep-set", Src: s.Text, Note: fmt.Sprintf("valid: a Set of two equal members nested %d levels", c.d), TokenLevel: true, DeepSet: c.d}
}

func (propC12) Run(ctx *Ctx, index int) {
	in := genC12Input(ctx.Prog, ctx.Tier)
	deepSet := false
	if index < 4 {
		in = hugeLineInput(index)
	} else if index < 4+len(c12DeepSets) {
		in = deepSetInput(index - 4)
		deepSet = true
	}
	if ctx.Tier == "thorough" && ctx.Prog.Choose(3) == 2 && !deepSet {
		in = stackMutations(ctx.Prog, in)
	}
	ctx.Res.Desc = c12Desc{Class: in.Class, Source: in.Src, Note: in.Note}
	ctx.Res.ProgKey = hashString(in.Src)
	ctx.Res.NonTrivial = true
	ctx.Probe("input_" + in.Class)
	nsched := 1 + ctx.Prog.Choose(2)
	strategies := []int{simrt.StratHighest, -1, simrt.StratLowest}
	// one case in eight: two callers at once (the input and a valid document),
	// each with its own notation, from a cold start
	if ctx.Prog.Choose(8) == 7 {
		ctx.Probe("input_with_a_concurrent_second_caller")
		other := genSentence(ctx.Prog, false)
		outs, _ := simParsePair(ctx, [2]string{in.Src, other.Text}, -1)
		checkC12(ctx, in, outs[0])
		if len(ctx.Res.Violations) == 0 {
			checkC12(ctx, c12Input{Class: "valid", Src: other.Text, TokenLevel: true}, outs[1])
		}
		return
	}
	// one case in four runs on a parser instance with a history: totality and
	// the diagnostic must not depend on what that instance parsed before
	var history []string
	if ctx.Prog.Choose(4) == 3 {
		history = reuseHistories[ctx.Prog.Choose(len(reuseHistories))]
		ctx.Probe("input_on_reused_parser_instance")
	}
	for s := 0; s < nsched; s++ {
		var out *parseOutcome
		if history != nil {
			out = simParseAfter(ctx, history, in.Src, strategies[s%len(strategies)])
		} else {
			out = simParse(ctx, in.Src, strategies[s%len(strategies)])
		}
		checkC12(ctx, in, out)
		if len(ctx.Res.Violations) > 0 {
			return
		}
	}
}

func checkC12(ctx *Ctx, in c12Input, out *parseOutcome) {
	src := in.Src
	q := fmt.Sprintf("%.200q", src)
	for _, r := range out.Res.Races {
		ctx.Violate("C12", "race", r.Sig, fmt.Sprintf("%s race on %s: %s vs %s while parsing %s", r.Kind, r.Var, r.SiteA, r.SiteB, q))
	}
	for _, t := range out.Res.Tasks {
		if t.ID != 0 && t.Panicked {
			ctx.Violate("C12", "goroutine-panic", "scanner:"+normMsg(t.PanicStr), fmt.Sprintf("a library goroutine panicked while parsing %s: %s\n%s", q, t.PanicStr, t.Stack))
		}
	}
	if !out.MainDone {
		what := "hang"
		if out.Res.End == "stepcap" {
			what = "no-quiescence"
		}
		ctx.Violate("C12", what, strings.SplitN(in.Class, "+", 2)[0], fmt.Sprintf("ParseSource neither returned nor panicked for %s (%d bytes): %s", q, len(src), out.Res.String()))
		return
	}
	if out.Returned {
		ctx.Probe("outcome_value")
		if _, err := toNode(out.Value, 0); err != nil {
			ctx.Violate("C12", "returned-non-collection", "value", fmt.Sprintf("ParseSource(%s) returned something that is not a collection: %v", q, err))
		}
	} else {
		ctx.Probe("outcome_diagnostic")
		if out.IsRuntime {
			ctx.Violate("C12", "runtime-error", runtimeSig(out), fmt.Sprintf("ParseSource(%s) failed with a Go runtime error: %s\n%s", q, out.PanicStr, out.Stack))
			return
		}
		msg, ok := out.PanicVal.(string)
		if !ok {
			ctx.Violate("C12", "non-textual-panic", fmt.Sprintf("%T", out.PanicVal), fmt.Sprintf("ParseSource(%s) panicked with a %T: %v", q, out.PanicVal, out.PanicVal))
			return
		}
		m := diagRe.FindStringSubmatch(msg)
		if m == nil {
			if in.DeepSet > 16 && strings.Contains(msg, collatorDepthLimit) {
				ctx.Violate("C12", "not-a-syntax-diagnostic", "set-members-equal-beyond-collator-depth-16", fmt.Sprintf("ParseSource(%s) panicked with text that is not a located syntax diagnostic: %s", q, firstLine(msg)))
				return
			}
			ctx.Violate("C12", "not-a-syntax-diagnostic", normMsg(msg), fmt.Sprintf("ParseSource(%s) panicked with text that is not a located syntax diagnostic: %s", q, firstLine(msg)))
			return
		}
		line, _ := strconv.Atoi(m[2])
		colm, _ := strconv.Atoi(m[3])
		quoted := strings.TrimSuffix(m[4], "...")
		truncated := strings.HasSuffix(m[4], "...")
		text, err := strconv.Unquote(quoted)
		if err != nil {
			ctx.Violate("C12", "bad-diagnostic-location", "unquotable-token", fmt.Sprintf("ParseSource(%s): cannot unquote the token text in: %s", q, firstLine(msg)))
			return
		}
		if sp, ok := specialTokenText[text]; ok {
			text = sp
		}
		idx, ok := lineColToIndex(src, line, colm)
		if !ok {
			ctx.Violate("C12", "bad-diagnostic-location", "position-outside-source", fmt.Sprintf("ParseSource(%s) reports line %d position %d, which is not a place in the input: %s", q, line, colm, firstLine(msg)))
			return
		}
		rest := string([]rune(src)[idx:])
		if m[1] == "EOF" {
			if idx != len([]rune(src)) {
				ctx.Violate("C12", "bad-diagnostic-location", "EOF-not-at-end", fmt.Sprintf("ParseSource(%s) reports EOF at line %d position %d, which is not the end of the input", q, line, colm))
			}
		} else if !strings.HasPrefix(rest, text) && !(truncated && strings.HasPrefix(rest, strings.ToValidUTF8(text, ""))) {
			ctx.Violate("C12", "bad-diagnostic-location", "token-text-not-at-position", fmt.Sprintf("ParseSource(%s) names token %s at line %d position %d but the input there reads %.20q", q, m[4], line, colm, rest))
		}
		if in.InjLine > 0 && (line != in.InjLine || colm != in.InjCol) {
			ctx.Violate("C12", "bad-diagnostic-location", "illegal-char-misplaced", fmt.Sprintf("ParseSource(%s): illegal character injected at line %d position %d but the diagnostic points at line %d position %d", q, in.InjLine, in.InjCol, line, colm))
		}
		if in.TokenLevel && in.InjLine == 0 {
			toks := tokenize(src)
			far, sentence, keyStart, kindMis := viablePrefixFull(toks)
			rep := -1
			for i, t := range toks {
				if t.Line == line && t.Col == colm {
					rep = i
				}
			}
			if rep < 0 {
				ctx.Violate("C12", "bad-diagnostic-location", "not-a-token-start", fmt.Sprintf("ParseSource(%s) points at line %d position %d, which is not the start of a token", q, line, colm))
			} else if !sentence && far < len(toks) {
				off := toks[far]
				switch {
				case rep == far:
					ctx.Probe("diag_names_first_offending_token")
				case rep == keyStart:
					ctx.Probe("diag_names_unfinished_association_key")
				case rep < far && unrepresentable(toks[rep]):
					ctx.Probe("diag_names_unrepresentable_literal")
				case kindMis && rep == far+1:
					ctx.Probe("diag_names_context_of_kind_mismatch")
				case rep > far:
					ctx.Violate("C12", "bad-diagnostic-location", "later-than-first-offending-token", fmt.Sprintf("ParseSource(%s): no derivation can continue at token %q (line %d position %d) but the diagnostic points later, at line %d position %d", q, off.Text, off.Line, off.Col, line, colm))
				default:
					ctx.Violate("C12", "bad-diagnostic-location", "names-an-accepted-token", fmt.Sprintf("ParseSource(%s): the first token at which no derivation can continue is %q (line %d position %d) but the diagnostic names the earlier, already accepted token %q at line %d position %d", q, off.Text, off.Line, off.Col, toks[rep].Text, line, colm))
				}
			}
		}
		if out.Res.Probes["park_on_full_channel"] > 0 {
			ctx.Probe("parser_died_with_tokens_in_flight")
		}
	}
	// no scanner left behind
	if out.Res.End != "done" {
		var left []string
		for _, t := range out.Res.Tasks {
			if !t.Finished {
				left = append(left, fmt.Sprintf("%s parked on %s", t.Name, t.Pending))
			}
		}
		what := "after-diagnostic"
		if out.Returned {
			what = "after-value"
		}
		ctx.Violate("C12", "leak:scanTokens", what, fmt.Sprintf("after ParseSource(%s) ended, a scanner goroutine is left blocked forever: %s (%s)", q, strings.Join(left, "; "), out.Res.End))
	}
}

var frameRe = regexp.MustCompile(`\.\(?\*?([A-Za-z_]+)\)?\.([A-Za-z_]+)\(`)

// unrepresentable: a well-formed token whose literal has no exact value
// (strconv rejects it); the parser must reject it where it stands (C11).
func unrepresentable(t htok) bool {
	var err error
	switch t.Kind {
	case "integer":
		_, err = strconv.ParseInt(t.Text, 10, 64)
	case "hexadecimal":
		_, err = strconv.ParseUint(t.Text[2:], 16, 64)
	case "float":
		_, err = strconv.ParseFloat(t.Text, 64)
	case "complex":
		_, err = strconv.ParseComplex(t.Text, 128)
	case "rune", "string":
		_, err = strconv.Unquote(t.Text)
	}
	return err != nil
}

func runtimeSig(out *parseOutcome) string {
	// schedule-independent: the kind of runtime error and the innermost
	// library function on the stack
	kind := "other"
	switch {
	case strings.Contains(out.PanicStr, "nil pointer"):
		kind = "nil-dereference"
	case strings.Contains(out.PanicStr, "index out of range"), strings.Contains(out.PanicStr, "slice bounds"):
		kind = "index-out-of-range"
	case strings.Contains(out.PanicStr, "interface conversion"):
		kind = "type-assertion"
	}
	fn := ""
	for _, l := range strings.Split(out.Stack, "\n") {
		if strings.Contains(l, "go-collection-framework/v4/") && !strings.HasPrefix(l, "\t") {
			if m := frameRe.FindStringSubmatch(l); m != nil {
				fn = m[1] + m[2]
				if strings.HasPrefix(fn, "scannerClass_.FormatToken") {
					continue // the innermost frame of interest is its caller
				}
				break
			}
		}
	}
	return kind + ":" + fn
}

// WorkerDied attributes a crashed worker (fatal stack overflow is not
// recoverable in Go) to the input it had announced.
func (propC12) WorkerDied(tier string, seed uint64, msg string) *Violation {
	if strings.Contains(msg, "stack overflow") || strings.Contains(msg, "goroutine stack exceeds") {
		return &Violation{Property: "C12", Class: "stack-overflow", Sig: "fatal", Msg: msg}
	}
	return nil
}

func (propC12) Meta() PropMeta {
	return PropMeta{
		Rule: "each case = one input string derived from a generated valid document (prefix; single-character deletion, insertion, substitution; 1-2 token-level mutations: delete/duplicate/swap/insert, i.e. valid tokens in invalid orders; an illegal character # @ ~ $ ; injected at a token boundary; item kinds that do not match the context; an error followed by 0-100 further items; nesting 1..2000; random runes and raw bytes incl. NUL and invalid UTF-8; the valid document itself; trailing garbage; a 1-100 byte token at the error point; a missing end-of-line in a multi-line sequence; rarely a 66-70 KB line, an error on line 1202 or after 6000 tokens (these four are also the first four cases of every batch); cases 4-7 of every batch are valid Sets of two equal members nested 16, 17, 17 and 40 levels (beyond 16: the recorded known finding); thorough: 1-3 further stacked character mutations) parsed under 1-2 seeded schedules, one case in four on a parser instance with a history of earlier parses, one in eight next to a second concurrent caller parsing a valid document (scanner-first to maximise tokens in flight when the parser dies, random, parser-first). The parser panicking mid-stream is the injected fault: the consumer of the token queue dies at an arbitrary token while the producer still has input. Oracles: main ends with a value or a string matching the located diagnostic format; never a runtime.Error; reported line/position exist in the input and the named token text really begins there; injected characters are reported at the injection point; for token-level inputs the diagnostic names the first token at which no derivation of the grammar can continue (harness's own tokenizer and kind-aware recogniser), or the start of an unfinished association key, an earlier unrepresentable literal, or the context of a kind mismatch; after main has ended every task must finish (no scanner parked forever). Distinct = distinct (input, schedule traces).",
		Assumptions: []string{
			"the 'not later than the first offending token' oracle is applied only to inputs built from known tokens",
			"a worker process dying with a fatal stack overflow is attributed to the announced input",
		},
		Real: realComponents, Stub: stubComponents, FaultKinds: parserFaultKinds,
	}
}

func init() { register(propC12{}) }
