package simrt

import "unsafe"

// Atomic operations are scheduling points and synchronise (Go's atomics are
// sequentially consistent): each variable carries a vector clock that every
// atomic operation both acquires and releases.

const (
	atomLoad  = 1 // acquire
	atomStore = 2 // release
	atomRMW   = 3 // both
)

func (s *Sim) atomicPoint(p unsafe.Pointer, mode int) {
	t := s.cur
	t.pend = op{kind: OpYield}
	s.yield(t)
	if mode&atomLoad != 0 {
		t.vc.join(s.atomVC[p])
	}
	if mode&atomStore != 0 {
		// a store publishes what this task has done (and, being sequentially
		// consistent, is ordered after the earlier stores it could observe)
		nv := s.atomVC[p].copy()
		nv.join(t.vc)
		s.atomVC[p] = nv
	}
	t.vc.tick(t.id)
}

func atomicOpMode(p unsafe.Pointer, mode int) {
	if s := S; s != nil && !s.aborting {
		if s.atomVC == nil {
			s.atomVC = map[unsafe.Pointer]vclock{}
		}
		s.atomicPoint(p, mode)
	}
}

func atomicOp(p unsafe.Pointer)      { atomicOpMode(p, atomRMW) }
func atomicLoadOp(p unsafe.Pointer)  { atomicOpMode(p, atomLoad) }
func atomicStoreOp(p unsafe.Pointer) { atomicOpMode(p, atomStore) }

type Int32 struct{ v int32 }

func (x *Int32) Load() int32        { atomicLoadOp(unsafe.Pointer(x)); return x.v }
func (x *Int32) Store(v int32)      { atomicStoreOp(unsafe.Pointer(x)); x.v = v }
func (x *Int32) Add(d int32) int32  { atomicOp(unsafe.Pointer(x)); x.v += d; return x.v }
func (x *Int32) Swap(v int32) int32 { atomicOp(unsafe.Pointer(x)); o := x.v; x.v = v; return o }
func (x *Int32) CompareAndSwap(o, n int32) bool {
	atomicOp(unsafe.Pointer(x))
	if x.v == o {
		x.v = n
		return true
	}
	return false
}

type Int64 struct{ v int64 }

func (x *Int64) Load() int64        { atomicLoadOp(unsafe.Pointer(x)); return x.v }
func (x *Int64) Store(v int64)      { atomicStoreOp(unsafe.Pointer(x)); x.v = v }
func (x *Int64) Add(d int64) int64  { atomicOp(unsafe.Pointer(x)); x.v += d; return x.v }
func (x *Int64) Swap(v int64) int64 { atomicOp(unsafe.Pointer(x)); o := x.v; x.v = v; return o }
func (x *Int64) CompareAndSwap(o, n int64) bool {
	atomicOp(unsafe.Pointer(x))
	if x.v == o {
		x.v = n
		return true
	}
	return false
}

type Uint32 struct{ v uint32 }

func (x *Uint32) Load() uint32         { atomicLoadOp(unsafe.Pointer(x)); return x.v }
func (x *Uint32) Store(v uint32)       { atomicStoreOp(unsafe.Pointer(x)); x.v = v }
func (x *Uint32) Add(d uint32) uint32  { atomicOp(unsafe.Pointer(x)); x.v += d; return x.v }
func (x *Uint32) Swap(v uint32) uint32 { atomicOp(unsafe.Pointer(x)); o := x.v; x.v = v; return o }
func (x *Uint32) CompareAndSwap(o, n uint32) bool {
	atomicOp(unsafe.Pointer(x))
	if x.v == o {
		x.v = n
		return true
	}
	return false
}

type Uint64 struct{ v uint64 }

func (x *Uint64) Load() uint64         { atomicLoadOp(unsafe.Pointer(x)); return x.v }
func (x *Uint64) Store(v uint64)       { atomicStoreOp(unsafe.Pointer(x)); x.v = v }
func (x *Uint64) Add(d uint64) uint64  { atomicOp(unsafe.Pointer(x)); x.v += d; return x.v }
func (x *Uint64) Swap(v uint64) uint64 { atomicOp(unsafe.Pointer(x)); o := x.v; x.v = v; return o }
func (x *Uint64) CompareAndSwap(o, n uint64) bool {
	atomicOp(unsafe.Pointer(x))
	if x.v == o {
		x.v = n
		return true
	}
	return false
}

type Bool struct{ v bool }

func (x *Bool) Load() bool       { atomicLoadOp(unsafe.Pointer(x)); return x.v }
func (x *Bool) Store(v bool)     { atomicStoreOp(unsafe.Pointer(x)); x.v = v }
func (x *Bool) Swap(v bool) bool { atomicOp(unsafe.Pointer(x)); o := x.v; x.v = v; return o }
func (x *Bool) CompareAndSwap(o, n bool) bool {
	atomicOp(unsafe.Pointer(x))
	if x.v == o {
		x.v = n
		return true
	}
	return false
}

type Pointer[T any] struct{ p *T }

func (x *Pointer[T]) Load() *T     { atomicLoadOp(unsafe.Pointer(x)); return x.p }
func (x *Pointer[T]) Store(v *T)   { atomicStoreOp(unsafe.Pointer(x)); x.p = v }
func (x *Pointer[T]) Swap(v *T) *T { atomicOp(unsafe.Pointer(x)); o := x.p; x.p = v; return o }
func (x *Pointer[T]) CompareAndSwap(o, n *T) bool {
	atomicOp(unsafe.Pointer(x))
	if x.p == o {
		x.p = n
		return true
	}
	return false
}

type Value struct{ v any }

func (x *Value) Load() any      { atomicLoadOp(unsafe.Pointer(x)); return x.v }
func (x *Value) Store(v any)    { atomicStoreOp(unsafe.Pointer(x)); x.v = v }
func (x *Value) Swap(v any) any { atomicOp(unsafe.Pointer(x)); o := x.v; x.v = v; return o }

type integer interface {
	~int32 | ~int64 | ~uint32 | ~uint64 | ~uintptr
}

func atomAdd[T integer](p *T, d T) T  { atomicOp(unsafe.Pointer(p)); *p += d; return *p }
func atomLoadF[T integer](p *T) T     { atomicLoadOp(unsafe.Pointer(p)); return *p }
func atomStoreF[T integer](p *T, v T) { atomicStoreOp(unsafe.Pointer(p)); *p = v }
func atomSwap[T integer](p *T, v T) T {
	atomicOp(unsafe.Pointer(p))
	o := *p
	*p = v
	return o
}
func atomCAS[T integer](p *T, o, n T) bool {
	atomicOp(unsafe.Pointer(p))
	if *p == o {
		*p = n
		return true
	}
	return false
}

func AddInt32(p *int32, d int32) int32                 { return atomAdd(p, d) }
func AddInt64(p *int64, d int64) int64                 { return atomAdd(p, d) }
func AddUint32(p *uint32, d uint32) uint32             { return atomAdd(p, d) }
func AddUint64(p *uint64, d uint64) uint64             { return atomAdd(p, d) }
func LoadInt32(p *int32) int32                         { return atomLoadF(p) }
func LoadInt64(p *int64) int64                         { return atomLoadF(p) }
func LoadUint32(p *uint32) uint32                      { return atomLoadF(p) }
func LoadUint64(p *uint64) uint64                      { return atomLoadF(p) }
func StoreInt32(p *int32, v int32)                     { atomStoreF(p, v) }
func StoreInt64(p *int64, v int64)                     { atomStoreF(p, v) }
func StoreUint32(p *uint32, v uint32)                  { atomStoreF(p, v) }
func StoreUint64(p *uint64, v uint64)                  { atomStoreF(p, v) }
func SwapInt32(p *int32, v int32) int32                { return atomSwap(p, v) }
func SwapInt64(p *int64, v int64) int64                { return atomSwap(p, v) }
func SwapUint32(p *uint32, v uint32) uint32            { return atomSwap(p, v) }
func SwapUint64(p *uint64, v uint64) uint64            { return atomSwap(p, v) }
func CompareAndSwapInt32(p *int32, o, n int32) bool    { return atomCAS(p, o, n) }
func CompareAndSwapInt64(p *int64, o, n int64) bool    { return atomCAS(p, o, n) }
func CompareAndSwapUint32(p *uint32, o, n uint32) bool { return atomCAS(p, o, n) }
func CompareAndSwapUint64(p *uint64, o, n uint64) bool { return atomCAS(p, o, n) }

// ---- condition variables --------------------------------------------------------

// Locker is sync.Locker.
type Locker interface {
	Lock()
	Unlock()
}

// Cond replaces sync.Cond.
type Cond struct {
	L       Locker
	gen     uint64
	ord     int
	waiters []*task
	vc      vclock
}

func NewCond(l Locker) *Cond { return &Cond{L: l} }

func (c *Cond) sync(s *Sim) {
	if c.gen != s.gen {
		c.gen = s.gen
		c.ord = s.ord()
		c.waiters = nil
		c.vc = nil
	}
}

func (c *Cond) Wait() {
	s := S
	if s == nil || s.aborting {
		return
	}
	c.sync(s)
	t := s.cur
	t.condWake = false
	c.waiters = append(c.waiters, t)
	c.L.Unlock()
	t.pend = op{kind: OpWait, obj: c.ord, enabled: func() bool { return t.condWake }}
	s.yield(t)
	t.vc.join(c.vc)
	t.vc.tick(t.id)
	c.L.Lock()
}

func (c *Cond) Signal() {
	s := S
	if s == nil || s.aborting {
		return
	}
	c.sync(s)
	t := s.cur
	c.vc.join(t.vc)
	t.vc.tick(t.id)
	if len(c.waiters) > 0 {
		c.waiters[0].condWake = true
		c.waiters = c.waiters[1:]
	} else {
		s.probes["cond_signal_without_waiter"]++
	}
	s.logEvent(t.id, OpDone, c.ord)
}

func (c *Cond) Broadcast() {
	s := S
	if s == nil || s.aborting {
		return
	}
	c.sync(s)
	t := s.cur
	c.vc.join(t.vc)
	t.vc.tick(t.id)
	for _, w := range c.waiters {
		w.condWake = true
	}
	c.waiters = nil
	s.logEvent(t.id, OpDone, c.ord)
}

// ---- additions (go1.23 And/Or, Value.CompareAndSwap) ---------------------------

func (x *Int32) And(m int32) int32    { atomicOp(unsafe.Pointer(x)); o := x.v; x.v &= m; return o }
func (x *Int32) Or(m int32) int32     { atomicOp(unsafe.Pointer(x)); o := x.v; x.v |= m; return o }
func (x *Int64) And(m int64) int64    { atomicOp(unsafe.Pointer(x)); o := x.v; x.v &= m; return o }
func (x *Int64) Or(m int64) int64     { atomicOp(unsafe.Pointer(x)); o := x.v; x.v |= m; return o }
func (x *Uint32) And(m uint32) uint32 { atomicOp(unsafe.Pointer(x)); o := x.v; x.v &= m; return o }
func (x *Uint32) Or(m uint32) uint32  { atomicOp(unsafe.Pointer(x)); o := x.v; x.v |= m; return o }
func (x *Uint64) And(m uint64) uint64 { atomicOp(unsafe.Pointer(x)); o := x.v; x.v &= m; return o }
func (x *Uint64) Or(m uint64) uint64  { atomicOp(unsafe.Pointer(x)); o := x.v; x.v |= m; return o }

// CompareAndSwap follows sync/atomic.Value: the old value must be comparable.
func (x *Value) CompareAndSwap(o, n any) bool {
	atomicOp(unsafe.Pointer(x))
	if x.v != o {
		return false
	}
	x.v = n
	return true
}

func atomAnd[T integer](p *T, m T) T { atomicOp(unsafe.Pointer(p)); o := *p; *p &= m; return o }
func atomOr[T integer](p *T, m T) T  { atomicOp(unsafe.Pointer(p)); o := *p; *p |= m; return o }

func AndInt32(p *int32, m int32) int32     { return atomAnd(p, m) }
func AndInt64(p *int64, m int64) int64     { return atomAnd(p, m) }
func AndUint32(p *uint32, m uint32) uint32 { return atomAnd(p, m) }
func AndUint64(p *uint64, m uint64) uint64 { return atomAnd(p, m) }
func OrInt32(p *int32, m int32) int32      { return atomOr(p, m) }
func OrInt64(p *int64, m int64) int64      { return atomOr(p, m) }
func OrUint32(p *uint32, m uint32) uint32  { return atomOr(p, m) }
func OrUint64(p *uint64, m uint64) uint64  { return atomOr(p, m) }
