package lib

import (
	"fmt"
	"reflect"
	"strings"
	"sync"
	"sync/atomic"
)

// ---- constructs added after the instrumenter review --------------------------

// cross-file / out-of-order initialisation: derived depends on base, declared
// later; pairA, pairB come from one call; an init function fills a syncRegistry.
var derived = base * 2
var base = seedValue()
var pairA, pairB = twoValues()
var table map[string]int

func seedValue() int          { return 21 }
func twoValues() (int, string) { return 7, "seven" }

func init() {
	table = map[string]int{"derived": derived, "pairA": pairA}
}

// InitState reports the package-level state and then spoils it, so that a cold
// start has something to repair.
func InitState() string {
	s := fmt.Sprintf("%d %d %d %s %d %d", derived, base, pairA, pairB, table["derived"], table["pairA"])
	derived, base, pairA, pairB = -1, -1, -1, "spoilt"
	table["derived"] = -1
	return s
}

type Shape interface{ Area() int }
type Square struct{ side int }

func (s Square) Area() int { return s.side * s.side }

// IfaceSend sends concrete values on a channel of interface type, plainly and
// in a select.
func IfaceSend() int {
	ch := make(chan Shape, 2)
	out := make(chan Shape)
	var wg sync.WaitGroup
	wg.Add(1)
	go func() {
		defer wg.Done()
		ch <- Square{2}
		select {
		case out <- Square{3}:
		}
		ch <- nil
	}()
	total := (<-ch).Area()
	total += (<-out).Area()
	if s := <-ch; s != nil {
		total = -1
	}
	wg.Wait()
	return total
}

// LabeledSelect leaves a labeled select and a loop around one with break L.
func LabeledSelect(n int) int {
	ch := make(chan int, n)
	stop := make(chan struct{})
	go func() {
		for i := 1; i <= n; i++ {
			ch <- i
		}
		close(stop)
	}()
	sum := 0
loop:
	for {
	sel:
		select {
		case v := <-ch:
			if v%2 == 0 {
				break sel
			}
			sum += v
		case <-stop:
			for {
				select {
				case v := <-ch:
					if v%2 != 0 {
						sum += v
					}
				default:
					break loop
				}
			}
		}
	}
	return sum
}

// GoIndexed starts goroutines whose function values come out of a map and a
// slice, with arguments evaluated left to right.
func GoIndexed() []int {
	var mu sync.Mutex
	var wg sync.WaitGroup
	var got []int
	order := 0
	next := func() int { order++; return order }
	m := map[string]func(int, int){"add": func(a, b int) {
		defer wg.Done()
		mu.Lock()
		got = append(got, a*10+b)
		mu.Unlock()
	}}
	fs := []func(int){func(a int) {
		defer wg.Done()
		mu.Lock()
		got = append(got, a)
		mu.Unlock()
	}}
	wg.Add(2)
	go m["add"](next(), next())
	go fs[0](next())
	wg.Wait()
	if len(got) == 2 && got[0] > got[1] {
		got[0], got[1] = got[1], got[0]
	}
	return got
}

// RMWOrder: the right-hand side of x op= f() is evaluated before x is read.
type counter struct{ n int }

func (c *counter) bump() int { c.n += 100; return 1 }

func RMWOrder() int {
	c := &counter{n: 1}
	c.n += c.bump()
	return c.n
}

// TryLocks uses the try variants of RWMutex and RLocker; Bits uses And/Or.
func TryLocks() (bool, bool, bool) {
	var rw sync.RWMutex
	a := rw.TryRLock()
	b := rw.TryLock() // a reader holds it
	rw.RUnlock()
	l := rw.RLocker()
	l.Lock()
	c := rw.TryRLock()
	rw.RUnlock()
	l.Unlock()
	return a, b, c
}

func Bits() uint32 {
	var x atomic.Uint32
	x.Store(0b1100)
	x.And(0b0110)
	x.Or(0b0001)
	var y uint32 = 8
	atomic.OrUint32(&y, 1)
	return x.Load()*16 + y
}

// ChanParam: a generic function whose channel is a type parameter.
func drain[C ~chan E, E any](c C) (out []E) {
	for v := range c {
		out = append(out, v)
	}
	return out
}

func ChanParam() int {
	c := make(chan int, 3)
	c <- 1
	c <- 2
	close(c)
	return len(drain(c))
}

// RangeAssign: range over a channel assigning to an existing variable whose
// last value is used after the loop; two-value receive in parentheses.
func RangeAssign() (int, bool) {
	c := make(chan int, 3)
	c <- 4
	c <- 5
	close(c)
	var last int
	for last = range c {
	}
	v, ok := (<-c)
	return last + v, ok
}

// ---- sync.Pool, sync.Map, sync.OnceValue, zero-reset of any type -----------------

type buffer struct{ data []int }

var bufPool = sync.Pool{New: func() any { return &buffer{} }}
var syncRegistry sync.Map
var lastBuf atomic.Pointer[buffer]
var answer = sync.OnceValue(func() int { return 42 })

// PoolAndMap: n goroutines take a buffer from the pool, use it, put it back,
// and register themselves; returns the number of registered keys, the sum of
// the registered values and whether any recycled buffer still held data.
func PoolAndMap(n int) (int, int, bool) {
	var wg sync.WaitGroup
	var dirty atomic.Bool
	for i := 1; i <= n; i++ {
		i := i
		wg.Add(1)
		go func() {
			defer wg.Done()
			b := bufPool.Get().(*buffer)
			if len(b.data) != 0 {
				dirty.Store(true)
			}
			b.data = append(b.data, i)
			syncRegistry.Store(i, answer()+i)
			b.data = b.data[:0]
			lastBuf.Store(b)
			bufPool.Put(b)
		}()
	}
	wg.Wait()
	keys, sum := 0, 0
	syncRegistry.Range(func(k, v any) bool { keys++; sum += v.(int); return true })
	if _, loaded := syncRegistry.LoadOrStore(1, 0); !loaded {
		sum = -1
	}
	return keys, sum, dirty.Load()
}

// ColdGlobals reports whether the globals are in their initial state.
func ColdGlobals() bool {
	n := 0
	syncRegistry.Range(func(k, v any) bool { n++; return true })
	return n == 0 && lastBuf.Load() == nil
}

// ---- map iteration order is the simulator's choice --------------------------------

type bag map[string]int

// MapOrder returns the keys of a map in iteration order (range statement on a
// named map type, key-only range, and reflect's MapKeys), plus the sum.
func MapOrder() (string, string, int) {
	m := bag{"a": 1, "b": 2, "c": 3, "d": 4, "e": 5}
	order := ""
	sum := 0
	for k, v := range m {
		order += k
		sum += v
		if v == 1 {
			delete(m, "e") // legal: "e" is not produced if not yet reached
			sum += 5 * boolToInt(!strings.Contains(order, "e"))
		}
	}
	n := 0
	for range m {
		n++
	}
	refl := ""
	for _, k := range reflect.ValueOf(map[int]bool{1: true, 2: true, 3: true}).MapKeys() {
		refl += fmt.Sprint(k.Int())
	}
	return order, refl, sum*10 + n
}

func boolToInt(b bool) int {
	if b {
		return 1
	}
	return 0
}
