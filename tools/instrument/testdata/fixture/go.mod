module fixture.local/fixture

go 1.22
