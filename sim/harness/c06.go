package main

import (
	"fmt"
	"sort"
	"strings"

	cdcn "github.com/craterdog/go-collection-framework/v4/cdcn"
	col "github.com/craterdog/go-collection-framework/v4/collection"
	"verif.local/simrt"
)

type c06Prog struct {
	Topology   string `json:"topology"` // fork split splitjoin
	FanOut     int    `json:"fan_out"`
	Capacity   int    `json:"capacity"`
	Length     int    `json:"length"`
	ExtraReads int    `json:"extra_reads"`
	Burst      int    `json:"feeder_burst"` // feeder yields every Burst values (0: never)
	Small      bool   `json:"small_matrix"`
}

var c06Topologies = []string{"fork", "split", "splitjoin"}

// chained topologies, drawn only for large configurations
var c06Chains = []string{"splitjoinfork", "forksplitjoin"}

// c06Small enumerates the complete small-configuration matrix of the property.
func c06Small() []c06Prog {
	var out []c06Prog
	for _, topo := range c06Topologies {
		for n := 2; n <= 3; n++ {
			for c := 1; c <= 2; c++ {
				for l := 0; l <= 4; l++ {
					out = append(out, c06Prog{Topology: topo, FanOut: n, Capacity: c, Length: l, ExtraReads: 1, Small: true})
				}
			}
		}
	}
	return out
}

var c06Matrix = c06Small()

type propC06 struct{}

func (propC06) ID() string { return "C06" }

func (propC06) Cases(tier string) int {
	if tier == "thorough" {
		return 4000000
	}
	return 240000
}

func (propC06) Run(ctx *Ctx, index int) {
	var p c06Prog
	t := ctx.Prog
	// drawn from the tape, not derived from the index (which would send all the
	// large configurations to the same worker processes)
	var large bool
	if ctx.Tier == "thorough" {
		large = t.Choose(2) == 1
	} else {
		large = t.Choose(10) == 9
	}
	// The tape still decides everything: cell 0 selects the matrix entry so that
	// a replayed or minimised case is self-contained.
	if !large {
		sel := t.Choose(len(c06Matrix))
		if !ctx.replay {
			// record mode: walk the matrix systematically by case index (index/16:
			// the driver hands index i to worker i mod 16, and the matrix has 60
			// entries - without the division a worker would only ever see 15 of them)
			sel = (index/16 + index) % len(c06Matrix)
			ctx.Prog.Cells[len(ctx.Prog.Cells)-1] = uint32(sel)
		}
		p = c06Matrix[sel]
		p.ExtraReads = 1 + t.Choose(2)
	} else {
		t.Choose(1)
		if k := t.Choose(5); k < 3 {
			p.Topology = c06Topologies[k]
		} else {
			p.Topology = c06Chains[k-3]
		}
		p.FanOut = t.Range(2, 8)
		p.Capacity = t.Range(1, 6)
		if ctx.Tier == "thorough" {
			p.Length = t.Range(0, 96)
		} else {
			p.Length = t.Range(0, 48)
		}
		p.ExtraReads = 1 + t.Choose(2)
		p.Burst = t.Choose(4)
	}
	ctx.Res.Desc = p
	ctx.Res.ProgKey = jsonKey(p)
	runC06(ctx, &p)
}

func runC06(ctx *Ctx, p *c06Prog) {
	nOut := p.FanOut
	switch p.Topology {
	case "splitjoin":
		nOut = 1
	case "splitjoinfork", "forksplitjoin":
		nOut = 2
	}
	got := make([][]int, nOut)
	sawClose := make([]bool, nOut)
	afterClose := make([][]int, nOut)
	readerPanic := make([]string, nOut)
	var group simrt.WaitGroup
	waitReturned := false
	feederDone := false
	mainPanic := ""
	res := ctx.Sim(nil, func() {
		defer func() {
			if r := recover(); r != nil {
				mainPanic = fmt.Sprint(r)
			}
		}()
		notation := cdcn.Notation().Make()
		class := col.Queue[int](notation)
		input := class.MakeWithCapacity(uint(p.Capacity))
		var outs []col.QueueLike[int]
		switch p.Topology {
		case "fork":
			outs = class.Fork(&group, input, uint(p.FanOut)).AsArray()
		case "split":
			outs = class.Split(&group, input, uint(p.FanOut)).AsArray()
		case "splitjoin":
			mid := class.Split(&group, input, uint(p.FanOut))
			outs = []col.QueueLike[int]{class.Join(&group, mid)}
		case "splitjoinfork":
			// Split(n) -> Join -> Fork(2): both readers must see the input sequence
			mid := class.Split(&group, input, uint(p.FanOut))
			outs = class.Fork(&group, class.Join(&group, mid), 2).AsArray()
		case "forksplitjoin":
			// Fork(2), each branch through Split(n) -> Join
			for _, branch := range class.Fork(&group, input, 2).AsArray() {
				outs = append(outs, class.Join(&group, class.Split(&group, branch, uint(p.FanOut))))
			}
		}
		if len(outs) != nOut {
			panic(fmt.Sprintf("topology returned %d outputs, expected %d", len(outs), nOut))
		}
		simrt.GoNamed("feeder", func() {
			for i := 1; i <= p.Length; i++ {
				if p.Burst > 0 && i%p.Burst == 0 {
					simrt.Yield()
				}
				input.AddValue(i)
			}
			input.CloseQueue()
			feederDone = true
		})
		for j := range outs {
			j := j
			out := outs[j]
			simrt.GoNamed(fmt.Sprintf("reader%d", j), func() {
				defer func() {
					if r := recover(); r != nil {
						readerPanic[j] = fmt.Sprint(r)
					}
				}()
				for {
					simrt.Yield()
					v, ok := out.RemoveHead()
					if !ok {
						break
					}
					got[j] = append(got[j], v)
				}
				sawClose[j] = true
				for k := 0; k < p.ExtraReads; k++ {
					simrt.Yield()
					v, ok := out.RemoveHead()
					if ok {
						afterClose[j] = append(afterClose[j], v)
					}
				}
			})
		}
		group.Wait()
		waitReturned = true
		simrt.Mark()
	})
	ctx.Res.NonTrivial = res.Switches >= 3
	topo := p.Topology
	desc := fmt.Sprintf("%s fan-out=%d capacity=%d length=%d", p.Topology, p.FanOut, p.Capacity, p.Length)
	if mainPanic != "" {
		ctx.Violate("C06", "panic", topo+":main:"+normMsg(mainPanic), desc+": main panicked: "+mainPanic)
		return
	}
	for _, t := range res.Tasks {
		if t.Panicked {
			ctx.Violate("C06", "panic", topo+":"+normMsg(t.PanicStr), fmt.Sprintf("%s: task %s panicked: %s\n%s", desc, t.Name, t.PanicStr, t.Stack))
		}
	}
	for j, rp := range readerPanic {
		if rp != "" {
			ctx.Violate("C06", "panic", topo+":reader:"+normMsg(rp), fmt.Sprintf("%s: reader %d panicked: %s", desc, j, rp))
		}
	}
	for _, r := range res.Races {
		ctx.Violate("C06", "race", r.Sig, fmt.Sprintf("%s: %s race on %s: %s vs %s", desc, r.Kind, r.Var, r.SiteA, r.SiteB))
	}
	if res.End != "done" {
		var kinds []string
		for _, t := range res.Tasks {
			if !t.Finished {
				role := t.Name
				role = strings.TrimRight(role, "0123456789")
				if strings.HasPrefix(role, "go#") {
					role = "helper"
				}
				kinds = append(kinds, role+":"+t.PendKind.String())
			}
		}
		sort.Strings(kinds)
		kinds = uniq(kinds)
		ctx.Violate("C06", "no-termination", topo+":"+strings.Join(kinds, ","), fmt.Sprintf("%s: the topology did not terminate: %s; outputs so far %v", desc, res.String(), got))
		return
	}
	if !waitReturned || !feederDone {
		ctx.Violate("C06", "no-termination", topo+":wait", desc+": run ended but Wait()/feeder did not complete")
	}
	// When the caller's Wait() has returned the helpers' work must be over: a
	// helper goroutine that INITIATES another operation afterwards (a queue call,
	// an access) was not covered by the wait group.  A helper that is merely being
	// resumed from an exchange its partner already completed does not count.
	var late []string
	for _, t := range res.Tasks {
		if t.ActiveAfterMark && strings.HasPrefix(t.Name, "go#") {
			late = append(late, t.Name)
		}
	}
	if len(late) > 0 {
		ctx.Violate("C06", "wait-returned-early", topo, fmt.Sprintf("%s: the caller's Wait() returned while library helper goroutine(s) %v went on working: the wait group does not cover the helpers", desc, late))
	}
	if group.Count() != 0 {
		ctx.Violate("C06", "waitgroup-nonzero", topo, fmt.Sprintf("%s: wait group counter is %d after termination", desc, group.Count()))
	}
	var input []int
	for i := 1; i <= p.Length; i++ {
		input = append(input, i)
	}
	for j := range got {
		if !sawClose[j] {
			ctx.Violate("C06", "no-closure", topo, fmt.Sprintf("%s: reader %d never saw ok=false", desc, j))
		}
		if len(afterClose[j]) > 0 {
			ctx.Violate("C06", "value-after-close", topo, fmt.Sprintf("%s: output %d delivered %v after reporting ok=false", desc, j, afterClose[j]))
		}
		var want []int
		switch p.Topology {
		case "fork", "splitjoin", "splitjoinfork", "forksplitjoin":
			want = input
		case "split":
			for i := j; i < p.Length; i += p.FanOut {
				want = append(want, input[i])
			}
		}
		if !equalInts(got[j], want) {
			ctx.Violate("C06", "wrong-output", topo, fmt.Sprintf("%s: output %d delivered %v, expected %v", desc, j, got[j], want))
		}
	}
}

func uniq(s []string) []string {
	var out []string
	for i, x := range s {
		if i == 0 || x != s[i-1] {
			out = append(out, x)
		}
	}
	return out
}

func equalInts(a, b []int) bool {
	if len(a) != len(b) {
		return false
	}
	for i := range a {
		if a[i] != b[i] {
			return false
		}
	}
	return true
}

func (propC06) Meta() PropMeta {
	return PropMeta{
		Rule: "each case = one topology (Fork(n), Split(n), Split(n)->Join) with a feeder task (adds 1..L then closes the input), one reader task per output (reads until ok=false, then 1-2 more reads that must also report ok=false) and main calling Wait() on the simulated wait group, run under one seeded schedule. The complete small matrix (3 topologies x fan-out 2..3 x capacity 1..2 x length 0..4 = 60 configurations) is cycled by case index in every tier; one case in ten (quick) or every second case (thorough) draws a large configuration (the three topologies or the chains Split->Join->Fork(2) and Fork(2)->Split->Join; fan-out 2..8, capacity 1..6, length 0..48 quick / 0..96 thorough, bursty feeder). Oracles: per-output sequences equal the specified ones, every reader ends through ok=false, nothing after closure, all tasks (library helper goroutines included) finish, no helper still running when the caller's Wait() returns, wait group back to zero, no panic, no data race. Non-trivial = at least 3 context switches; distinct = distinct (configuration, schedule trace).",
		Assumptions: []string{
			"configurations are enumerated, schedules are sampled",
			"helper goroutines are adopted through the rewritten go statements; the caller's wait group is the simulator's",
		},
		Real: realComponents, Stub: stubComponents, FaultKinds: queueFaultKinds,
	}
}

func init() { register(propC06{}) }
