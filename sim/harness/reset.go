package main

import (
	fwk "github.com/craterdog/go-collection-framework/v4"
	agent "github.com/craterdog/go-collection-framework/v4/agent"
	cdcn "github.com/craterdog/go-collection-framework/v4/cdcn"
	col "github.com/craterdog/go-collection-framework/v4/collection"
)

func init() {
	ResetLibrary = func() {
		agent.SimReset()
		col.SimReset()
		cdcn.SimReset()
		fwk.SimReset()
	}
}
