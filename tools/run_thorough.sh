#!/bin/bash
# run_thorough.sh [ids...]: runs the thorough tier of each check from /verif
# against /repo, keeps a copy of its evidence under evidence/thorough/, and logs
# the summary lines to evidence/thorough/SUMMARY.txt.
cd /verif
mkdir -p evidence/thorough
ids="${@:-C06 C19 C04 C05 C11 C12}"
for p in $ids; do
  start=$(date +%s)
  VERIF_EVIDENCE_DIR=/verif/evidence/thorough ./check $p thorough > /tmp/thorough-$p.out 2>&1
  rc=$?
  end=$(date +%s)
  line=$(grep -E "^$p thorough:" /tmp/thorough-$p.out | tail -1)
  echo "$(date -u +%FT%TZ) seed=${VERIF_SEED:-1} rc=$rc elapsed=$((end-start))s $line" >> evidence/thorough/SUMMARY.txt
  grep -E "^VIOLATION|^KNOWN-FINDING|^violation:|CANNOT" /tmp/thorough-$p.out | cut -c1-300 >> evidence/thorough/SUMMARY.txt
done
tail -8 evidence/thorough/SUMMARY.txt
