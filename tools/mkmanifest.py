#!/usr/bin/env python3
"""Regenerates /verif/MANIFEST.json. Edit CLAIMED / NA below, never the JSON by hand."""
import json, os
NA = {
"C01":"Sequential ADT refinement over single-goroutine call histories; no schedule, fault, clock or interleaving for a simulator to own (DESIGN.md §4).",
"C02":"Function of the single-goroutine call history and collator choice; nothing blocks, spawns or shares state (DESIGN.md §4).",
"C03":"Single-goroutine history; the two internal structures are updated with nothing able to interleave or abort between them (DESIGN.md §4).",
"C07":"Pure function of two arguments: every clause is falsified by a pair or triple of values, i.e. by input enumeration, not by a schedule, fault, clock or interleaving. Go's randomised map iteration is the only run-time choice it can meet; the simulator owns it (simrt.MapSeq / MapKeysOf, so that C11 and C19 runs replay, and C11 exercises it for Maps inside Sets) but it adds nothing blocking, concurrent or faulty to C07 (DESIGN.md §4).",
"C08":"Pure function; the depth-limit panic is input-driven and deterministic (DESIGN.md §4).",
"C09":"Pure function of array and ranker; the crypto/rand draw in ShuffleValues is put behind a seam only so C19 replays (DESIGN.md §4).",
"C10":"Pure in the value and call history; its concurrent and blocking paths are decided under C11/C12, C05 and C19 (DESIGN.md §4).",
"C13":"Sequential history over a single-goroutine stack (DESIGN.md §4).",
"C14":"Sequential history over a Go map wrapper (DESIGN.md §4).",
"C15":"Pure functions of their set operands (DESIGN.md §4).",
"C16":"Pure functions of their operands (DESIGN.md §4).",
"C17":"Single-goroutine cursor arithmetic and snapshot isolation under sequential mutation; the queue iterator under concurrency is an observer in C04 (DESIGN.md §4).",
"C18":"Write-through-one-reference/read-through-the-other in one goroutine; no interleaving involved (DESIGN.md §4).",
"C20":"Pure dispatch on dynamic argument types; its only blocking path (large Queue forms) is checked under C05 (DESIGN.md §4).",
}
PENDING = "Claimed in DESIGN.md; its check is still under construction in this round and will move to `checks` when committed."
CLAIMED = {
"C04": dict(ref="§3.1", technique="deterministic simulation: seeded schedule search over generated client programs, porcupine linearizability + happens-before race oracle",
  text="Seeded search over interleavings (at synchronisation granularity) of generated small client programs on the real, AST-instrumented queue; every run is checked for panics, data races (vector clocks over the mediated operations), linearizability against a nondeterministic FIFO model (porcupine), conservation, back-pressure and interval-consistent observers. Sampling, not enumeration: a clean batch is evidence, not proof.",
  note="Trusts the instrumenter's rewrite rules, the simrt enabledness/happens-before model of Go mutexes and buffered channels, and porcupine. Preemption only at synchronisation operations and call boundaries."),
"C05": dict(ref="§3.2", technique="deterministic simulation: seeded schedule search with quiescence/deadlock detection; exhaustive constructor matrix",
  text="Liveness as bounded progress: under the baton scheduler a run ends when no task is enabled, so a lost wake-up is a deadlock the simulator sees directly, with each parked call compared against the queue's own frozen state. Well-formed pipelines must terminate; open programs may block only when justified. The constructor matrix (11 forms x N=0..64) is enumerated completely in every tier.",
  note="Same trusted base as C04. 'Forever' means: no task enabled and no further operations will be issued."),
"C06": dict(ref="§3.3", technique="deterministic simulation: seeded schedule search over an enumerated configuration matrix with adopted helper goroutines",
  text="The library's Fork/Split/Join helper goroutines are adopted as simulator tasks through the rewritten go statements; feeder, readers and main are harness tasks. The small configuration matrix of the property is enumerated completely and each configuration is run under many seeded schedules (plus sampled large configurations); outputs, closure propagation, termination, wait-group balance, panics and data races are checked per run.",
  note="Same trusted base as C04; configurations enumerated, schedules sampled."),
"C11": dict(ref="§3.4", technique="deterministic simulation: grammar-derived sentences parsed as a two-task scanner/parser simulation under several seeded schedules, strconv-evaluated meaning oracle",
  text="Every sentence (systematic context x layout x literal matrix, must-reject literals, long documents, association lists and both empty forms under every context, whole literal pools and multi-key Maps as Set members, Sets of deeply nested members, grammar-drawn documents up to 400 tokens) is parsed by the real scanner goroutine and recursive-descent parser under 3 (quick) or 12 (thorough) controlled schedules including parser-first and scanner-first extremes; the parsed value is walked through the public API and compared with the derivation tree evaluated by strconv, and all schedules must agree (Go map iteration order inside the library is drawn from the tape as well). One known finding (known_findings.json): a Set whose two members are equal beyond nesting depth 16 is rejected. The harness refuses to run when the repository's grammar file no longer matches its encoding.",
  note="Trusts strconv as the definition of literal meaning, the library collator for Set order, the harness's encoding of the grammar (cross-checked against Syntax.cdsn at start-up) and the simulator model."),
"C12": dict(ref="§3.5", technique="deterministic simulation with fault injection: the token consumer (parser) dies by panic at an arbitrary token while the producer (scanner) is mid-stream; quiescence detection after main ends",
  text="Malformed (and some valid) inputs of sixteen classes are parsed as a two-task simulation; the parser's own panic is the injected fault. After the main task has ended the scheduler keeps running, so a scanner goroutine left blocked on the full token queue is a deadlock the simulator sees; runtime errors, non-diagnostic panics, wrong or impossible diagnostic positions (checked against the harness's own tokenizer and viable-prefix recogniser) and hangs are violations. A worker killed by a fatal stack overflow is attributed to its announced input. One known finding (known_findings.json): valid Sets whose two members are equal beyond nesting depth 16 end in the collator's depth-limit panic, which is no syntax diagnostic.",
  note="Trusts the harness tokenizer/recogniser (written from the grammar file) for the position oracle, applied only to token-level inputs; other inputs get the weaker check that the named token text really begins at the reported position."),
"C19": dict(ref="§3.6", technique="deterministic simulation: per-task scripts on disjoint instances, serial reference vs seeded concurrent schedule with shared-variable access preemption, happens-before race oracle",
  text="Generated scripts over disjoint, task-private instances are executed serially (reference) and then concurrently under a seeded schedule in which accesses to variables already touched by two tasks become preemption points and read-modify-write statements on them are split; hidden shared state shows as a data race (vector clocks over every tracked struct field and package variable) or as a result log that differs from the serial reference; class accessors must return one class per type parameter. Every run starts from first-use state of the class registries.",
  note="Trusts the instrumenter's identification of field/package-variable accesses (typed AST), the happens-before model, and the per-task seeded entropy stream that stands in for crypto/rand."),
}
ORDER = ["C04","C05","C06","C11","C12","C19"]
checks = []
for pid in ORDER:
    if pid not in CLAIMED: continue
    c = CLAIMED[pid]
    checks.append({
      "property_id": pid,
      "quick_cmd": f"./check {pid} quick",
      "thorough_cmd": f"./check {pid} thorough",
      "evidence_file": f"/verif/evidence/{pid}.json",
      "replay_cmd_template": "./check replay {path}",
      "engine": "simharness",
      "level_claimed": {"category":"exploration","text":c["text"],"design_ref":"DESIGN.md "+c["ref"]},
      "level_note": c["note"],
      "technique": c["technique"],
    })
na = [{"property_id":k,"reason":v} for k,v in NA.items()]
for pid in ORDER:
    if pid not in CLAIMED: na.append({"property_id":pid,"reason":PENDING})
na.sort(key=lambda x:x["property_id"])
m = {
 "version":1,
 "setup_cmd":"cd /verif && ./check warm",
 "hooks":{"guard":"none","enable":"no hooks in /repo: every check copies /repo/v4 (working tree) to a scratch directory and rewrites it with /verif/tools/instrument (AST instrumentation of mutexes, channels, go statements, select, tracked field accesses); shipped code is untouched",
          "baseline_off_cmd":"cd /repo/v4 && GOFLAGS=-mod=mod GOPROXY=off GOSUMDB=off go test -vet=off -count=1 ./...","source_commits":[],"add_only":True},
 "engines":[{"name":"simharness","path":"/verif/sim","serves_properties":[c["property_id"] for c in checks],
   "kind_free_text":"deterministic simulator (simrt: baton scheduler over real goroutines, choice tape, vector-clock race oracle) + AST instrumenter + per-property workloads/oracles; 16 worker processes per check"}],
 "checks":checks,
 "notes":"Technique family: deterministic simulation with fault injection. `./check replay <file>` replays a minimised failing case; `./check selftest` proves determinism. Known/fixed findings: known_findings.json.",
 "not_applicable":na,
}
json.dump(m, open(os.path.join(os.path.dirname(__file__),"..","MANIFEST.json"),"w"), indent=1)
print("checks:", [c["property_id"] for c in checks])
