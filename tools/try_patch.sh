#!/bin/bash
# try_patch.sh <patch> <ID> [tier]: apply a patch to /repo, run one check, revert.
set -u
patch="$(realpath "$1")"; id="$2"; tier="${3:-quick}"
cd /repo && git diff --quiet || { echo "/repo is dirty"; exit 2; }
git -C /repo apply "$patch" || { echo "patch does not apply"; exit 2; }
trap 'git -C /repo checkout -- . ; git -C /repo clean -fdq' EXIT
cd /verif && ./check "$id" "$tier" > /tmp/try_patch.out 2>&1
rc=$?
grep -E "^VIOLATION|^KNOWN-FINDING|^violation:|CANNOT|cases=" /tmp/try_patch.out | cut -c1-250 | head -12
echo "exit=$rc"
exit $rc
