package main

import (
	"fmt"
	"regexp"
	"strings"

	agent "github.com/craterdog/go-collection-framework/v4/agent"
	col "github.com/craterdog/go-collection-framework/v4/collection"
)

// ---- the harness's own tokenizer (from the expression section of the grammar) -------

type htok struct {
	Kind string // boolean complex delimiter EOL float hexadecimal integer nil rune string type error EOF
	Text string
	Line int
	Col  int
}

const (
	hSign     = `[+-]`
	hOrdinal  = `[1-9][0-9]*`
	hScalar   = `(?:0|` + hOrdinal + `)\.[0-9]+`
	hExponent = `[eE]` + hSign + hOrdinal
	hFloat    = hSign + `?(?:` + hScalar + `)(?:` + hExponent + `)?`
	hUnicode  = `x[0-9a-f]{2}|u[0-9a-f]{4}|U[0-9a-f]{8}`
	hEscape   = `\\(?:(?:` + hUnicode + `)|[abfnrtv'"\\])`
)

var hMatchers = []struct {
	kind string
	re   *regexp.Regexp
}{
	{"boolean", regexp.MustCompile(`^(?:false|true)`)},
	{"complex", regexp.MustCompile(`^(?:\((` + hFloat + `)` + hSign + `(` + hFloat + `)i\))`)},
	{"delimiter", regexp.MustCompile(`^(?:\[|\]|\(|\)|:|,)`)},
	{"EOL", regexp.MustCompile(`^\n`)},
	{"float", regexp.MustCompile(`^(?:` + hFloat + `)`)},
	{"hexadecimal", regexp.MustCompile(`^0x[0-9a-f]+`)},
	{"integer", regexp.MustCompile(`^(?:0|` + hSign + `?` + hOrdinal + `)`)},
	{"nil", regexp.MustCompile(`^nil`)},
	{"rune", regexp.MustCompile(`^'(?:` + hEscape + `|[^'\n])'`)},
	{"space", regexp.MustCompile(`^[ ]+`)},
	{"string", regexp.MustCompile(`^"(?:` + hEscape + `|[^"\n])*"`)},
	{"type", regexp.MustCompile(`^(?:Array|Catalog|List|Map|Queue|Set|Stack)`)},
}

// tokenize splits a source text into tokens with 1-based line and rune column.
func tokenize(src string) []htok {
	var out []htok
	runes := []rune(src)
	i, line, colm := 0, 1, 1
	for i < len(runes) {
		rest := string(runes[i:])
		matched := false
		for _, m := range hMatchers {
			if loc := m.re.FindString(rest); loc != "" {
				n := len([]rune(loc))
				if m.kind != "space" {
					out = append(out, htok{Kind: m.kind, Text: loc, Line: line, Col: colm})
				}
				if m.kind == "EOL" {
					line++
					colm = 1
				} else {
					colm += n
				}
				i += n
				matched = true
				break
			}
		}
		if !matched {
			out = append(out, htok{Kind: "error", Text: string(runes[i]), Line: line, Col: colm})
			if runes[i] == '\n' {
				line++
				colm = 1
			} else {
				colm++
			}
			i++
			break
		}
	}
	out = append(out, htok{Kind: "EOF", Text: "", Line: line, Col: colm})
	return out
}

// ---- viable-prefix recogniser -------------------------------------------------------------

type recogniser struct {
	toks []htok
	far  int
	memo map[string][]int
	// keyFail[j] = i: an Association was attempted at token i, its key
	// (an intrinsic) matched, and the ":" expected at token j was missing.
	keyFail map[int]int
	// kindMismatch[j]: token j is a Catalog/Map type closing a sequence of
	// plain values (the parser requires associations there).
	kindMismatch map[int]bool
}

func (r *recogniser) term(i int, kind, text string) []int {
	if i < len(r.toks) && r.toks[i].Kind == kind && (text == "" || r.toks[i].Text == text) {
		if i+1 > r.far {
			r.far = i + 1
		}
		return []int{i + 1}
	}
	return nil
}

func (r *recogniser) intrinsic(i int) []int {
	if i < len(r.toks) {
		switch r.toks[i].Kind {
		case "boolean", "complex", "float", "hexadecimal", "integer", "nil", "rune", "string":
			if i+1 > r.far {
				r.far = i + 1
			}
			return []int{i + 1}
		}
	}
	return nil
}

func union(a, b []int) []int {
	seen := map[int]bool{}
	var out []int
	for _, x := range append(append([]int{}, a...), b...) {
		if !seen[x] {
			seen[x] = true
			out = append(out, x)
		}
	}
	return out
}

func (r *recogniser) each(from []int, f func(int) []int) []int {
	var out []int
	for _, i := range from {
		out = union(out, f(i))
	}
	return out
}

func (r *recogniser) memoed(name string, i int, f func() []int) []int {
	key := fmt.Sprintf("%s@%d", name, i)
	if v, ok := r.memo[key]; ok {
		return v
	}
	r.memo[key] = nil
	v := f()
	r.memo[key] = v
	return v
}

func (r *recogniser) collection(i int) []int {
	return r.memoed("C", i, func() []int {
		open := r.term(i, "delimiter", "[")
		finish := func(from []int, valuesOnly bool) []int {
			a := r.each(from, func(j int) []int { return r.term(j, "delimiter", "]") })
			a = r.each(a, func(j int) []int { return r.term(j, "delimiter", "(") })
			a = r.each(a, func(j int) []int {
				if valuesOnly && j < len(r.toks) && r.toks[j].Kind == "type" && (r.toks[j].Text == "Catalog" || r.toks[j].Text == "Map") {
					r.kindMismatch[j] = true
					return nil
				}
				return r.term(j, "type", "")
			})
			return r.each(a, func(j int) []int { return r.term(j, "delimiter", ")") })
		}
		vals := r.each(open, r.valueItems)
		rest := r.each(open, r.otherItems)
		return union(finish(vals, true), finish(rest, false))
	})
}

func (r *recogniser) value(i int) []int {
	return union(r.intrinsic(i), r.collection(i))
}

func (r *recogniser) assoc(i int) []int {
	a := r.intrinsic(i)
	a = r.each(a, func(j int) []int {
		c := r.term(j, "delimiter", ":")
		if len(c) == 0 {
			r.keyFail[j] = i
		}
		return c
	})
	return r.each(a, r.value)
}

func (r *recogniser) list(i int, item func(int) []int) []int {
	// item ("," item)*
	var out []int
	frontier := item(i)
	for len(frontier) > 0 {
		out = union(out, frontier)
		next := r.each(frontier, func(j int) []int { return r.term(j, "delimiter", ",") })
		frontier = r.each(next, item)
	}
	return out
}

func (r *recogniser) multi(i int, item func(int) []int) []int {
	// (EOL item)+ EOL
	var out []int
	frontier := []int{i}
	for {
		a := r.each(frontier, func(j int) []int { return r.term(j, "EOL", "") })
		b := r.each(a, item)
		if len(b) == 0 {
			break
		}
		out = union(out, r.each(b, func(j int) []int { return r.term(j, "EOL", "") }))
		frontier = b
	}
	return out
}

// valueItems: a non-empty sequence of plain values.
func (r *recogniser) valueItems(i int) []int {
	return union(r.list(i, r.value), r.multi(i, r.value))
}

// otherItems: the empty forms and sequences of associations.
func (r *recogniser) otherItems(i int) []int {
	out := []int{i} // " " : no values
	out = union(out, r.term(i, "delimiter", ":"))
	out = union(out, r.list(i, r.assoc))
	out = union(out, r.multi(i, r.assoc))
	return out
}

// viablePrefix returns the number of leading tokens that form a viable prefix
// of some sentence (== len(toks) when the whole text is a sentence).
func viablePrefix(toks []htok) (far int, sentence bool) {
	far, sentence, _ = viablePrefixKey(toks)
	return
}

// viablePrefixKey additionally returns the index of the token that starts an
// unfinished association key ending right before the first offending token
// (-1 if there is none): a parser may name either.
func viablePrefixKey(toks []htok) (far int, sentence bool, keyStart int) {
	far, sentence, keyStart, _ = viablePrefixFull(toks)
	return
}

// viablePrefixFull also reports whether the first offending token is a
// Catalog/Map type that closes a sequence of plain values.
func viablePrefixFull(toks []htok) (far int, sentence bool, keyStart int, kindMismatch bool) {
	r := &recogniser{toks: toks, memo: map[string][]int{}, keyFail: map[int]int{}, kindMismatch: map[int]bool{}}
	a := r.collection(0)
	for len(a) > 0 {
		ends := r.each(a, func(j int) []int { return r.term(j, "EOF", "") })
		if len(ends) > 0 {
			return len(toks), true, -1, false
		}
		a = r.each(a, func(j int) []int { return r.term(j, "EOL", "") })
	}
	keyStart = -1
	if k, ok := r.keyFail[r.far]; ok {
		keyStart = k
	}
	return r.far, false, keyStart, r.kindMismatch[r.far]
}

// ---- canonical tree of a parsed value (public API only) ----------------------------------------

func toNode(v any, depth int) (*node, error) {
	if depth > 10000 {
		return nil, fmt.Errorf("value nested deeper than 10000")
	}
	switch x := v.(type) {
	case nil:
		return &node{Kind: "nil"}, nil
	case bool:
		return &node{Kind: "bool", B: x}, nil
	case int64:
		return &node{Kind: "int", I: x}, nil
	case uint64:
		return &node{Kind: "uint", U: x}, nil
	case float64:
		return &node{Kind: "float", F: x}, nil
	case complex128:
		return &node{Kind: "complex", C: [2]float64{real(x), imag(x)}}, nil
	case rune:
		return &node{Kind: "rune", R: x}, nil
	case string:
		return &node{Kind: "string", S: x}, nil
	case col.AssociationLike[any, any]:
		k, err := toNode(x.GetKey(), depth+1)
		if err != nil {
			return nil, err
		}
		val, err := toNode(x.GetValue(), depth+1)
		if err != nil {
			return nil, err
		}
		return &node{Kind: "assoc", Kids: []*node{k, val}}, nil
	}
	seq := func(kind string, arr []any) (*node, error) {
		n := &node{Kind: kind}
		for _, e := range arr {
			k, err := toNode(e, depth+1)
			if err != nil {
				return nil, err
			}
			n.Kids = append(n.Kids, k)
		}
		return n, nil
	}
	assocs := func(kind string, arr []col.AssociationLike[any, any]) (*node, error) {
		n := &node{Kind: kind}
		for _, e := range arr {
			k, err := toNode(e, depth+1)
			if err != nil {
				return nil, err
			}
			n.Kids = append(n.Kids, k)
		}
		return n, nil
	}
	switch x := v.(type) {
	case col.CatalogLike[any, any]:
		return assocs("Catalog", x.AsArray())
	case col.ListLike[any]:
		return seq("List", x.AsArray())
	case col.QueueLike[any]:
		return seq("Queue", x.AsArray())
	case col.SetLike[any]:
		n, err := seq("Set", x.AsArray())
		if err != nil {
			return nil, err
		}
		arr := x.AsArray()
		c := agent.Collator[any]().Make()
		for i := 0; i+1 < len(arr); i++ {
			if c.RankValues(arr[i], arr[i+1]) != agent.LesserRank {
				return nil, fmt.Errorf("Set elements %d and %d are not strictly ascending under the collator: %s", i, i+1, n)
			}
		}
		return n, nil
	case col.StackLike[any]:
		return seq("Stack", x.AsArray())
	case col.ArrayLike[any]:
		return seq("Array", x.AsArray())
	case col.MapLike[any, any]:
		return assocs("Map", x.AsArray())
	}
	return nil, fmt.Errorf("value of unexpected dynamic type %T", v)
}

// setEqual compares an expected Set (members in source order, de-duplicated)
// with the parsed one (members in collator order): same members.
func treeMatches(want, got *node) bool {
	if want.Kind != got.Kind {
		return false
	}
	switch want.Kind {
	case "Set", "Map":
		if len(want.Kids) != len(got.Kids) {
			return false
		}
		used := make([]bool, len(got.Kids))
	outer:
		for _, w := range want.Kids {
			for j, g := range got.Kids {
				if !used[j] && treeMatches(w, g) {
					used[j] = true
					continue outer
				}
			}
			return false
		}
		return true
	case "assoc", "Array", "Catalog", "List", "Queue", "Stack":
		if len(want.Kids) != len(got.Kids) {
			return false
		}
		for i := range want.Kids {
			if !treeMatches(want.Kids[i], got.Kids[i]) {
				return false
			}
		}
		return true
	}
	return nodeEqual(want, got)
}

// naturalOrderOK: a Set of homogeneous ints or strings must come back in
// natural order.
func naturalOrderOK(n *node) bool {
	if n.Kind == "Set" && len(n.Kids) > 1 {
		allInt, allStr := true, true
		for _, k := range n.Kids {
			if k.Kind != "int" {
				allInt = false
			}
			if k.Kind != "string" {
				allStr = false
			}
		}
		for i := 0; i+1 < len(n.Kids); i++ {
			if allInt && !(n.Kids[i].I < n.Kids[i+1].I) {
				return false
			}
			if allStr && !(n.Kids[i].S < n.Kids[i+1].S) {
				return false
			}
		}
	}
	for _, k := range n.Kids {
		if !naturalOrderOK(k) {
			return false
		}
	}
	return true
}

var diagRe = regexp.MustCompile(`(?s)^An unexpected token was received by the parser: Token \[type: ([A-Za-z]+), line: (\d+), position: (\d+)\]: ("(?:[^"\\]|\\.)*"(?:\.\.\.)?)\n`)

var specialTokenText = map[string]string{"<NULL>": "\x00", "<BELL>": "\a", "<BKSP>": "\b", "<HTAB>": "\t", "<FMFD>": "\f", "<EOLN>": "\n", "<CRTN>": "\r", "<VTAB>": "\v"}

func lineColToIndex(src string, line, colm int) (int, bool) {
	lines := strings.Split(src, "\n")
	if line < 1 || line > len(lines) {
		return 0, false
	}
	r := []rune(lines[line-1])
	if colm < 1 || colm > len(r)+1 {
		// the EOL token of a line sits at len+1
		return 0, false
	}
	idx := 0
	for i := 0; i < line-1; i++ {
		idx += len([]rune(lines[i])) + 1
	}
	return idx + colm - 1, true
}
