package main

import (
	_ "embed"
	"fmt"
	"regexp"
	"strconv"
	"strings"

	"verif.local/simrt"
)

// ---- the grammar of Syntax.cdsn, encoded as data ---------------------------------

//go:embed Syntax.cdsn
var syntaxCDSN string

// grammarShape is the harness's encoding of the rule section: rule name ->
// number of alternatives.  checkGrammar refuses to run when the repository's
// grammar file disagrees (the generator would then be generating another
// language than the published one).
var grammarShape = map[string]int{
	"AST": 1, "Collection": 1, "Sequence": 1, "Context": 1, "Items": 2, "Values": 3,
	"AdditionalValue": 1, "MultilineValue": 1, "Value": 2, "Intrinsic": 8, "Associations": 3,
	"AdditionalAssociation": 1, "MultilineAssociation": 1, "Association": 1,
}

func checkGrammar() error {
	// rule section = between the RULE DEFINITIONS banner and the EXPRESSION banner
	i := strings.Index(syntaxCDSN, "RULE DEFINITIONS")
	j := strings.Index(syntaxCDSN, "EXPRESSION DEFINITIONS")
	if i < 0 || j < 0 || j < i {
		return fmt.Errorf("Syntax.cdsn: rule section not found")
	}
	sec := syntaxCDSN[i:j]
	found := map[string]int{}
	cur := ""
	ruleRe := regexp.MustCompile(`^([A-Z][A-Za-z]*):(.*)$`)
	for _, line := range strings.Split(sec, "\n") {
		if m := ruleRe.FindStringSubmatch(line); m != nil {
			cur = m[1]
			if strings.TrimSpace(m[2]) != "" {
				found[cur] = 1
			} else {
				found[cur] = 0
			}
			continue
		}
		if cur != "" && strings.HasPrefix(line, "    ") && strings.TrimSpace(line) != "" {
			found[cur]++
		} else if strings.TrimSpace(line) == "" {
			cur = ""
		}
	}
	for k, n := range grammarShape {
		if found[k] != n {
			return fmt.Errorf("Syntax.cdsn: rule %s has %d alternatives, harness encodes %d", k, found[k], n)
		}
	}
	for k := range found {
		if _, ok := grammarShape[k]; !ok {
			return fmt.Errorf("Syntax.cdsn: rule %s is not encoded in the harness", k)
		}
	}
	for _, typ := range contexts {
		if !strings.Contains(syntaxCDSN[j:], `"`+typ+`"`) {
			return fmt.Errorf("Syntax.cdsn: type %q missing from the type expression", typ)
		}
	}
	return nil
}

var contexts = []string{"Array", "Catalog", "List", "Map", "Queue", "Set", "Stack"}

func isAssocContext(c string) bool { return c == "Catalog" || c == "Map" }

// ---- expected meaning ------------------------------------------------------------------

// node is a canonical value tree: what a sentence denotes.
type node struct {
	Kind string     `json:"k"` // nil bool int uint float complex rune string assoc | Array Catalog List Map Queue Set Stack
	B    bool       `json:"b,omitempty"`
	I    int64      `json:"i,omitempty"`
	U    uint64     `json:"u,omitempty"`
	F    float64    `json:"f,omitempty"`
	C    [2]float64 `json:"c,omitempty"`
	R    rune       `json:"r,omitempty"`
	S    string     `json:"s,omitempty"`
	Kids []*node    `json:"kids,omitempty"`
}

func (n *node) String() string {
	switch n.Kind {
	case "nil":
		return "nil"
	case "bool":
		return fmt.Sprint(n.B)
	case "int":
		return fmt.Sprintf("int64(%d)", n.I)
	case "uint":
		return fmt.Sprintf("uint64(%d)", n.U)
	case "float":
		return "float64(" + strconv.FormatFloat(n.F, 'g', -1, 64) + ")"
	case "complex":
		return fmt.Sprintf("complex(%g,%g)", n.C[0], n.C[1])
	case "rune":
		return fmt.Sprintf("rune(%q)", n.R)
	case "string":
		return fmt.Sprintf("%q", n.S)
	case "assoc":
		return n.Kids[0].String() + ": " + n.Kids[1].String()
	}
	var parts []string
	for _, k := range n.Kids {
		parts = append(parts, k.String())
	}
	return "[" + strings.Join(parts, ", ") + "](" + n.Kind + ")"
}

func nodeEqual(a, b *node) bool {
	if a.Kind != b.Kind {
		return false
	}
	switch a.Kind {
	case "nil":
		return true
	case "bool":
		return a.B == b.B
	case "int":
		return a.I == b.I
	case "uint":
		return a.U == b.U
	case "float":
		return a.F == b.F
	case "complex":
		return a.C == b.C
	case "rune":
		return a.R == b.R
	case "string":
		return a.S == b.S
	}
	if len(a.Kids) != len(b.Kids) {
		return false
	}
	if a.Kind == "Map" {
		// unordered
		used := make([]bool, len(b.Kids))
	outer:
		for _, x := range a.Kids {
			for j, y := range b.Kids {
				if !used[j] && nodeEqual(x, y) {
					used[j] = true
					continue outer
				}
			}
			return false
		}
		return true
	}
	for i := range a.Kids {
		if !nodeEqual(a.Kids[i], b.Kids[i]) {
			return false
		}
	}
	return true
}

// ---- literal pools ---------------------------------------------------------------------------

type literal struct {
	Alt  string // the Intrinsic alternative
	Text string
	Val  *node
}

func mustLit(alt, text string) literal {
	n := &node{}
	switch alt {
	case "boolean":
		b, err := strconv.ParseBool(text)
		if err != nil {
			panic(err)
		}
		n.Kind, n.B = "bool", b
	case "integer":
		i, err := strconv.ParseInt(text, 10, 64)
		if err != nil {
			panic(err)
		}
		n.Kind, n.I = "int", i
	case "hexadecimal":
		u, err := strconv.ParseUint(text[2:], 16, 64)
		if err != nil {
			panic(err)
		}
		n.Kind, n.U = "uint", u
	case "float":
		f, err := strconv.ParseFloat(text, 64)
		if err != nil {
			panic(err)
		}
		n.Kind, n.F = "float", f
	case "complex":
		c, err := strconv.ParseComplex(text, 128)
		if err != nil {
			panic(fmt.Sprint(text, err))
		}
		n.Kind, n.C = "complex", [2]float64{real(c), imag(c)}
	case "nil":
		n.Kind = "nil"
	case "rune":
		// standard Go semantics of a rune literal: the value of its single
		// (possibly escaped) character; '\xe9' is 0xE9, not a UTF-8 decoding
		r, _, tail, err := strconv.UnquoteChar(text[1:len(text)-1], '\'')
		if err != nil || tail != "" {
			panic(fmt.Sprint(text, err, tail))
		}
		n.Kind, n.R = "rune", r
	case "string":
		s, err := strconv.Unquote(text)
		if err != nil {
			panic(fmt.Sprint(text, err))
		}
		n.Kind, n.S = "string", s
	}
	return literal{Alt: alt, Text: text, Val: n}
}

var intrinsicAlts = []string{"boolean", "complex", "float", "hexadecimal", "integer", "nil", "rune", "string"}

var litPool = func() map[string][]literal {
	texts := map[string][]string{
		"boolean":     {"false", "true"},
		"integer":     {"0", "1", "-1", "+1", "7", "42", "-42", "10", "100", "1234567890", "9223372036854775807", "+9223372036854775807", "-9223372036854775807", "-9223372036854775808"},
		"hexadecimal": {"0x0", "0x1", "0xff", "0x00ff", "0xdeadbeef", "0x7fffffffffffffff", "0x8000000000000000", "0xffffffffffffffff"},
		"float": {"0.0", "1.5", "-1.5", "+1.5", "0.125", "3.14159", "10.0", "0.1", "123456789.125", "1.0E+10", "1.0e-10", "2.5E+100", "-2.5e-100",
			"1.7976931348623157E+308", "4.9E-324", "6.02E+23", "1.0e+1", "9.99E+99", "1.25E-7"},
		"complex": {"(1.0+2.0i)", "(-1.5-0.5i)", "(0.0+0.0i)", "(1.0E+2-3.0e-1i)", "(+2.0+1.0i)", "(0.5-1.0E+10i)",
			// same phase, magnitudes whose squares overflow or underflow
			"(1.0E+200+0.0i)", "(2.0E+200+0.0i)", "(1.0E-200+0.0i)", "(2.0E-200+0.0i)", "(1.0E+200+1.0E+200i)", "(2.0E+200+2.0E+200i)"},
		"nil":  {"nil"},
		"rune": {`'a'`, `'Z'`, `'0'`, `' '`, `'"'`, `'\''`, `'\\'`, `'\n'`, `'\t'`, `'\a'`, `'\x41'`, `'\x7f'`, `'\x80'`, `'\xe9'`, `'\xff'`, `'\u00e9'`, `'\U0001f600'`, `'é'`, `'😀'`, `'\v'`, `'['`, `','`},
		"string": {`""`, `"a"`, `"hello world"`, `"with \"quotes\""`, `"tab\there"`, `"\x41é\U0001f600"`, `"ünïcödé"`, `"😀"`, `"back\\slash"`, `"[](List)"`,
			`"1, 2"`, `"a: b"`, `"nil"`, `"true"`, `"'"`, `"\a\b\f\n\r\t\v"`, `"The quick brown fox jumps over the lazy dog and keeps running for a rather long while."`},
	}
	out := map[string][]literal{}
	for alt, ts := range texts {
		for _, t := range ts {
			out[alt] = append(out[alt], mustLit(alt, t))
		}
	}
	return out
}()

// signed zeros are valid literals but are kept out of Sets (whether -0.0 and
// 0.0 are one member or two is C07's subject, not this property's).
var signedZeros = []literal{mustLit("float", "-0.0"), mustLit("float", "+0.0"), mustLit("complex", "(-0.0+0.0i)"), mustLit("complex", "(0.0-0.0i)")}

// mustReject are literals the scanner accepts as one token but that cannot be
// represented: ParseSource must reject them rather than substitute a value.
var mustReject = []struct{ Alt, Text string }{
	{"integer", "9223372036854775808"},
	{"integer", "-9223372036854775809"},
	{"integer", "99999999999999999999"},
	{"integer", "+18446744073709551616"},
	{"hexadecimal", "0x10000000000000000"},
	{"hexadecimal", "0xfffffffffffffffffff"},
	{"string", `"\xZZ"`},
	{"string", `"a\qb"`},
	{"string", `"\ud800"`},
	{"string", `"\Uffffffff"`},
	{"string", `"end\z"`},
	{"rune", `'\ud800'`},
	{"rune", `'\Uffffffff'`},
}

// ---- sentence generation ---------------------------------------------------------------------

type genOpts struct {
	maxDepth int
	maxItems int
	style    int // 0 strict (no optional blanks), 1 formatter style
	inSet    bool
	queueCap int
}

type sentence struct {
	Text   string
	Want   *node
	Tokens int
	// DeepSet > 0: the sentence is a Set whose two members are equal down to
	// this nesting depth (the Set has to compare them that far)
	DeepSet int
}

type gen struct {
	t      *simrt.Tape
	opts   genOpts
	tokens int
	budget int // total token budget of the sentence
}

func (g *gen) literal(inSet bool, keyOnly bool) literal {
	alt := intrinsicAlts[g.t.Choose(len(intrinsicAlts))]
	pool := litPool[alt]
	if !inSet && (alt == "float" || alt == "complex") && g.t.Choose(6) == 5 {
		z := signedZeros[g.t.Choose(len(signedZeros))]
		if (alt == "float") == (z.Alt == "float") {
			return z
		}
	}
	return pool[g.t.Choose(len(pool))]
}

func indent(depth int) string { return strings.Repeat("    ", depth) }

// collection renders one Collection at the given nesting depth.
func (g *gen) collection(depth int, inSet bool) (string, *node) {
	ctx := contexts[g.t.Choose(len(contexts))]
	return g.collectionOf(ctx, depth, inSet, -1)
}

func (g *gen) collectionOf(ctx string, depth int, inSet bool, forceItems int) (string, *node) {
	want := &node{Kind: ctx}
	assoc := isAssocContext(ctx)
	maxItems := g.opts.maxItems
	if ctx == "Queue" && maxItems > 16 {
		maxItems = 16
	}
	if ctx == "Map" && inSet && maxItems > 3 {
		maxItems = 3 // Maps as (parts of) Set members: the collator ranks them over their sorted keys, whatever Go's iteration order
	}
	n := forceItems
	if n < 0 {
		switch g.t.Choose(4) {
		case 0:
			n = 0
		case 1:
			n = 1
		default:
			n = g.t.Range(1, maxItems)
		}
	}
	if n > maxItems {
		n = maxItems
	}
	if left := (g.budget - g.tokens) / 3; n > left {
		n = left
		if n < 0 {
			n = 0
		}
	}
	multiline := n > 0 && g.t.Choose(2) == 1
	childInSet := inSet || ctx == "Set"
	// The grammar does not tie the kind of the items to the context: a list of
	// associations is a sentence under every context (the value collections
	// then hold associations, a repeated key keeping its first position and
	// its last value), and both empty forms are sentences under every context.
	ctxAssoc := assoc
	if !assoc && g.t.Choose(6) == 5 {
		assoc = true
	}
	emptyColon := assoc
	if n == 0 && g.t.Choose(4) == 3 {
		emptyColon = !ctxAssoc
	}
	var items []string
	var kids []*node
	for i := 0; i < n; i++ {
		var keyText string
		var keyNode *node
		if assoc {
			k := g.literal(childInSet, true)
			keyText, keyNode = k.Text, k.Val
			g.tokens += 2
		}
		var vt string
		var vn *node
		if depth < g.opts.maxDepth && g.tokens < g.budget && g.t.Choose(4) == 3 {
			vt, vn = g.collection(depth+1, childInSet)
		} else {
			l := g.literal(childInSet, false)
			vt, vn = l.Text, l.Val
			g.tokens++
		}
		if assoc {
			sep := ":"
			if g.opts.style == 1 {
				sep = ": "
			}
			items = append(items, keyText+sep+vt)
			kids = append(kids, &node{Kind: "assoc", Kids: []*node{keyNode, vn}})
		} else {
			items = append(items, vt)
			kids = append(kids, vn)
		}
	}
	var b strings.Builder
	b.WriteString("[")
	switch {
	case n == 0 && emptyColon:
		b.WriteString(":")
		g.tokens++
	case n == 0:
		b.WriteString(" ")
	case multiline:
		for _, it := range items {
			b.WriteString("\n")
			if g.opts.style == 1 {
				b.WriteString(indent(depth + 1))
			}
			b.WriteString(it)
			g.tokens++
		}
		b.WriteString("\n")
		if g.opts.style == 1 {
			b.WriteString(indent(depth))
		}
		g.tokens++
	default:
		sep := ","
		if g.opts.style == 1 {
			sep = ", "
		}
		b.WriteString(strings.Join(items, sep))
		g.tokens += n - 1
	}
	b.WriteString("](" + ctx + ")")
	g.tokens += 5
	want.Kids = meaningOf(ctx, assoc, kids)
	return b.String(), want
}

// genSentence draws one sentence of the grammar (AST: Collection EOL* EOF).
func genSentence(t *simrt.Tape, big bool) sentence {
	g := &gen{t: t, budget: 400}
	g.opts.style = t.Choose(2)
	if big {
		g.opts.maxDepth = t.Range(0, 6)
		g.opts.maxItems = t.Range(1, 40)
	} else {
		g.opts.maxDepth = t.Range(0, 2)
		g.opts.maxItems = t.Range(1, 3)
	}
	text, want := g.collection(0, false)
	eols := t.Choose(3)
	text += strings.Repeat("\n", eols)
	return sentence{Text: text, Want: want, Tokens: g.tokens + eols + 1}
}

// systematicSentence enumerates context x layout x literal: every literal of
// every Intrinsic alternative as the sole or repeated item of every context in
// every layout.
func systematicCount() int {
	n := 0
	for _, alt := range intrinsicAlts {
		n += len(litPool[alt])
	}
	n += len(signedZeros)
	return len(contexts) * 6 * n * 2
}

func allLiterals() []literal {
	var out []literal
	for _, alt := range intrinsicAlts {
		out = append(out, litPool[alt]...)
	}
	out = append(out, signedZeros...)
	return out
}

var allLits = allLiterals()

func systematicSentence(idx int) sentence {
	style := idx % 2
	idx /= 2
	lit := allLits[idx%len(allLits)]
	idx /= len(allLits)
	layout := idx % 6 // 0: inline x1, 1: inline x2, 2: inline x3, 3: multi x1, 4: multi x2, 5: multi x3
	idx /= 6
	ctx := contexts[idx%len(contexts)]
	n := layout%3 + 1
	multi := layout >= 3
	other := litPool["integer"][5] // 42
	assoc := isAssocContext(ctx)
	var items []string
	var kids []*node
	for i := 0; i < n; i++ {
		l := lit
		if i == 1 {
			l = other
		}
		if assoc {
			key := litPool["string"][1+i%2] // "a", "hello world"
			if i == 2 {
				key = lit // the literal as a key, too
			}
			sep := ":"
			if style == 1 {
				sep = ": "
			}
			items = append(items, key.Text+sep+l.Text)
			kids = append(kids, &node{Kind: "assoc", Kids: []*node{key.Val, l.Val}})
		} else {
			items = append(items, l.Text)
			kids = append(kids, l.Val)
		}
	}
	var b strings.Builder
	b.WriteString("[")
	if multi {
		for _, it := range items {
			b.WriteString("\n")
			if style == 1 {
				b.WriteString("    ")
			}
			b.WriteString(it)
		}
		b.WriteString("\n")
	} else {
		sep := ","
		if style == 1 {
			sep = ", "
		}
		b.WriteString(strings.Join(items, sep))
	}
	b.WriteString("](" + ctx + ")")
	if style == 1 {
		b.WriteString("\n")
	}
	want := &node{Kind: ctx}
	want.Kids = meaningOf(ctx, assoc, kids)
	return sentence{Text: b.String(), Want: want, Tokens: 0}
}

// meaningOf is the denotation of a list of items under a context: associations
// keep, per key, the first position and the last value (whatever the context);
// a Set de-duplicates its members (and orders them: compared as a set, the
// order being checked against the collator when the result is read).
func meaningOf(ctx string, assocItems bool, kids []*node) []*node {
	var out []*node
	if assocItems {
		for _, k := range kids {
			found := false
			for _, e := range out {
				if nodeEqual(e.Kids[0], k.Kids[0]) {
					e.Kids[1] = k.Kids[1]
					found = true
					break
				}
			}
			if !found {
				out = append(out, &node{Kind: "assoc", Kids: []*node{k.Kids[0], k.Kids[1]}})
			}
		}
		kids = out
		out = nil
	}
	if ctx == "Set" {
		for _, k := range kids {
			dup := false
			for _, e := range out {
				if nodeEqual(e, k) {
					dup = true
				}
			}
			if !dup {
				out = append(out, k)
			}
		}
		return out
	}
	return kids
}

// assocSentence enumerates association lists under EVERY context: context x
// layout (inline, multi-line) x rendering x pattern (one item; two keys; a
// repeated key first/last; only one key repeated; the two empty forms).
const assocPatterns = 7

func assocSystematicCount() int { return len(contexts) * 2 * 2 * assocPatterns }

func assocSentence(idx int) sentence {
	style := idx % 2
	idx /= 2
	multi := idx%2 == 1
	idx /= 2
	pat := idx % assocPatterns
	idx /= assocPatterns
	ctx := contexts[idx%len(contexts)]
	ka, kb := litPool["string"][1], litPool["string"][2]
	v := func(i int) literal { return litPool["integer"][i%len(litPool["integer"])] }
	type kv struct{ k, v literal }
	var items []kv
	empty := ""
	switch pat {
	case 0:
		items = []kv{{ka, v(1)}}
	case 1:
		items = []kv{{ka, v(1)}, {kb, v(2)}}
	case 2:
		items = []kv{{ka, v(1)}, {kb, v(2)}, {ka, v(3)}}
	case 3:
		items = []kv{{ka, v(1)}, {ka, v(2)}}
	case 4:
		items = []kv{{kb, v(1)}, {ka, v(2)}, {ka, v(3)}, {kb, v(4)}, {ka, v(5)}}
	case 5:
		empty = ":"
	case 6:
		empty = " "
	}
	sep := ":"
	if style == 1 {
		sep = ": "
	}
	var texts []string
	var kids []*node
	for _, it := range items {
		texts = append(texts, it.k.Text+sep+it.v.Text)
		kids = append(kids, &node{Kind: "assoc", Kids: []*node{it.k.Val, it.v.Val}})
	}
	var b strings.Builder
	b.WriteString("[")
	switch {
	case len(items) == 0:
		b.WriteString(empty)
	case multi:
		for _, t := range texts {
			b.WriteString("\n")
			if style == 1 {
				b.WriteString("    ")
			}
			b.WriteString(t)
		}
		b.WriteString("\n")
	default:
		js := ","
		if style == 1 {
			js = ", "
		}
		b.WriteString(strings.Join(texts, js))
	}
	b.WriteString("](" + ctx + ")")
	if style == 1 {
		b.WriteString("\n")
	}
	want := &node{Kind: ctx}
	want.Kids = meaningOf(ctx, len(items) > 0, kids)
	return sentence{Text: b.String(), Want: want}
}

// poolSentence: ALL literals of one Intrinsic alternative as the members of one
// Set (distinct literals must stay distinct members, whatever their magnitude)
// and, as a control, of one List; inline and multi-line.
func poolSentenceCount() int { return len(intrinsicAlts)*2*2 + len(setsOfMaps)*2 }

// setsOfMaps: Sets whose members are Maps with several keys, equal ones written
// in different key orders: membership must not depend on Go's map iteration.
var setsOfMaps = [][][][2]string{
	{{{`"a"`, "1"}, {`"b"`, "2"}}, {{`"b"`, "2"}, {`"a"`, "1"}}},
	{{{`"a"`, "1"}, {`"b"`, "2"}}, {{`"b"`, "2"}, {`"a"`, "1"}}, {{`"a"`, "1"}, {`"b"`, "3"}}},
	{{{`"a"`, "1"}, {`"b"`, "2"}, {`"c"`, "3"}}, {{`"c"`, "3"}, {`"b"`, "2"}, {`"a"`, "1"}}, {{`"b"`, "2"}, {`"c"`, "3"}, {`"a"`, "1"}}, {{`"a"`, "1"}, {`"b"`, "2"}}},
	{{{"1", `"x"`}, {"2", `"y"`}, {"3", `"z"`}, {"4", `"w"`}}, {{"4", `"w"`}, {"3", `"z"`}, {"2", `"y"`}, {"1", `"x"`}}, {{"1", `"x"`}, {"2", `"y"`}, {"3", `"z"`}, {"4", `"v"`}}},
}

func setOfMapsSentence(idx int) sentence {
	multi := idx%2 == 1
	spec := setsOfMaps[(idx/2)%len(setsOfMaps)]
	var texts []string
	var kids []*node
	for _, m := range spec {
		var items []string
		mn := &node{Kind: "Map"}
		for _, kv := range m {
			items = append(items, kv[0]+": "+kv[1])
			alt := func(t string) string {
				if strings.HasPrefix(t, `"`) {
					return "string"
				}
				return "integer"
			}
			mn.Kids = append(mn.Kids, &node{Kind: "assoc", Kids: []*node{mustLit(alt(kv[0]), kv[0]).Val, mustLit(alt(kv[1]), kv[1]).Val}})
		}
		texts = append(texts, "["+strings.Join(items, ", ")+"](Map)")
		kids = append(kids, mn)
	}
	text := "[" + strings.Join(texts, ", ") + "](Set)"
	if multi {
		text = "[\n    " + strings.Join(texts, "\n    ") + "\n](Set)\n"
	}
	want := &node{Kind: "Set"}
	want.Kids = meaningOf("Set", false, kids)
	return sentence{Text: text, Want: want}
}

func poolSentence(idx int) sentence {
	if idx >= len(intrinsicAlts)*2*2 {
		return setOfMapsSentence(idx - len(intrinsicAlts)*2*2)
	}
	multi := idx%2 == 1
	idx /= 2
	ctx := []string{"Set", "List"}[idx%2]
	idx /= 2
	alt := intrinsicAlts[idx%len(intrinsicAlts)]
	var texts []string
	var kids []*node
	for _, l := range litPool[alt] {
		texts = append(texts, l.Text)
		kids = append(kids, l.Val)
	}
	text := "[" + strings.Join(texts, ", ") + "](" + ctx + ")"
	if multi {
		text = "[\n    " + strings.Join(texts, "\n    ") + "\n](" + ctx + ")\n"
	}
	want := &node{Kind: ctx}
	want.Kids = meaningOf(ctx, false, kids)
	return sentence{Text: text, Want: want}
}

// deepSetSentence: a Set of two equal members nested d levels deep ("nested
// arbitrarily" meets the one context that has to compare its members).
var deepSetDepths = []int{3, 15, 16, 17, 18, 40}

func deepSetCount() int { return len(deepSetDepths) * 2 * 2 }

func deepSetSentence(idx int) sentence {
	multi := idx%2 == 1
	idx /= 2
	inner := []string{"List", "Set"}[idx%2]
	idx /= 2
	d := deepSetDepths[idx%len(deepSetDepths)]
	return deepSetOf(d, inner, multi)
}

func deepSetOf(d int, inner string, multi bool) sentence {
	x := "1"
	n := &node{Kind: "int", I: 1}
	for i := 0; i < d; i++ {
		x = "[" + x + "](" + inner + ")"
		n = &node{Kind: inner, Kids: []*node{n}}
	}
	text := "[" + x + ", " + x + "](Set)"
	if multi {
		text = "[\n    " + x + "\n    " + x + "\n](Set)\n"
	}
	return sentence{Text: text, Want: &node{Kind: "Set", Kids: []*node{n}}, DeepSet: d}
}

// collatorDepthLimit is the message of the library collator when it gives up.
const collatorDepthLimit = "maximum traversal depth was exceeded"
