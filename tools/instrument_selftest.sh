#!/bin/bash
# Instruments a fixture module that uses every rewritten construct (mutex,
# rwmutex, cond, waitgroup, typed and function-form atomics, buffered and
# unbuffered channels, range over a channel, select with and without default,
# go with arguments, time.Sleep/Now/Since, captured locals) and runs it under
# the simulator: results must be right for 300 seeds, no false race, and the one
# deliberate race must be flagged.
set -u
export GOFLAGS=-mod=mod GOPROXY=off GOSUMDB=off GOTOOLCHAIN=local
V=/verif
tmp="$(mktemp -d /tmp/verif-ifix-XXXXXX)"; trap 'rm -rf "$tmp"' EXIT
(cd $V/tools/instrument && go build -o "$tmp/instrument" .) || exit 2
cp -r $V/tools/instrument/testdata/fixture "$tmp/fixture"
cp -r $V/tools/instrument/testdata/driver "$tmp/driver"
cp -r $V/sim/simrt "$tmp/simrt"
"$tmp/instrument" -dir "$tmp/fixture" -stats "$tmp/stats.json" || { echo "instrument failed"; exit 1; }
(cd "$tmp/driver" && go build -o "$tmp/drv" . ) || { echo "fixture does not build after instrumentation"; exit 1; }
"$tmp/drv"
