#!/bin/bash
# run_mutant.sh <patch> <ID> [tier]: apply a patch to a scratch COPY of /repo
# (never to /repo itself), run one check against that copy, report, clean up.
set -u
patch="$(realpath "$1")"; id="$2"; tier="${3:-quick}"
tmp="$(mktemp -d /tmp/verif-mut-XXXXXX)"; trap 'rm -rf "$tmp"' EXIT
mkdir -p "$tmp/repo" && rsync -a --exclude .git /repo/ "$tmp/repo/"
(cd "$tmp/repo" && patch -p1 -s < "$patch") || { echo "patch does not apply"; exit 3; }
VERIF_REPO="$tmp/repo" VERIF_EVIDENCE_DIR="$tmp/ev" VERIF_REPLAY_DIR="$tmp/rp" /verif/check "$id" "$tier" > "$tmp/out" 2>&1
rc=$?
grep -E "^VIOLATION|^KNOWN-FINDING|^violation:|CANNOT|cases=" "$tmp/out" | cut -c1-220 | head -${MUT_LINES:-8}
echo "exit=$rc"
exit $rc
