#!/bin/bash
# selftest.sh <simharness> [n-seeds]: determinism self-test.  For every property,
# the same N case seeds are executed in 6 fresh processes (GOMAXPROCS 1, 4, 16,
# twice each) and additionally through the 16-worker and 1-worker batch driver;
# every trace id, end state, step count and verdict must agree.
set -u
bin="$1"; n="${2:-40}"
tmp="$(mktemp -d /tmp/verif-selftest-XXXXXX)"; trap 'rm -rf "$tmp"' EXIT
rc=0
# the simulator's own unit tests and the instrumenter's fixture
(cd /verif/sim/simrt && GOFLAGS=-mod=mod GOPROXY=off GOSUMDB=off GOTOOLCHAIN=local go test -count=1 . >/dev/null 2>&1) && echo "selftest: simrt unit tests pass" || { echo "selftest: simrt unit tests FAIL"; rc=1; }
/verif/tools/instrument_selftest.sh | tail -1 | grep -q FIXTURE-OK && echo "selftest: instrumenter fixture ok (every rewritten construct, 300 seeds)" || { echo "selftest: instrumenter fixture FAIL"; rc=1; }
# known hazards: Go map iteration reaching the event log
# (comments are stripped: simrt/syncx.go is the MODEL of sync.Map - a plain map plus an insertion-order key slice)
if sed 's://.*$::' /verif/sim/simrt/*.go /verif/sim/harness/*.go | grep -n "sync\.Map" >/dev/null; then echo "selftest: sync.Map in simulator code"; rc=1; fi
for p in C04 C05 C06 C11 C12 C19; do
  i=0
  for gmp in 1 4 16 1 4 16; do
    i=$((i+1))
    GOMAXPROCS=$gmp "$bin" trace -prop $p -tier quick -seed "${VERIF_SEED:-1}" -n "$n" > "$tmp/$p.$i" 2>&1 &
  done
  wait
  for j in 2 3 4 5 6; do
    if ! cmp -s "$tmp/$p.1" "$tmp/$p.$j"; then
      echo "selftest: $p: run 1 and run $j differ:"; diff "$tmp/$p.1" "$tmp/$p.$j" | head -6; rc=1
    fi
  done
  lines=$(wc -l < "$tmp/$p.1")
  echo "selftest: $p: $lines cases x 6 processes (GOMAXPROCS 1/4/16) identical=$([ $rc = 0 ] && echo yes || echo NO)"
  # batch driver with 16 and 1 workers must report the same totals
  a=$("$bin" run -prop $p -tier quick -seed 7 -workers 16 -cases 600 | tail -1 | sed 's/wall=[0-9.]*s//')
  b=$("$bin" run -prop $p -tier quick -seed 7 -workers 1 -cases 600 | tail -1 | sed 's/wall=[0-9.]*s//')
  if [ "$a" != "$b" ]; then echo "selftest: $p: 16-worker and 1-worker batches differ:"; echo " $a"; echo " $b"; rc=1; fi
done
[ $rc = 0 ] && echo "selftest: PASS" || echo "selftest: FAIL"
exit $rc
