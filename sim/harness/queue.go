package main

import (
	"fmt"
	"math"
	"os"
	"sort"
	"strings"
	"time"

	"github.com/anishathalye/porcupine"
	cdcn "github.com/craterdog/go-collection-framework/v4/cdcn"
	col "github.com/craterdog/go-collection-framework/v4/collection"
	"verif.local/simrt"
)

// ---- program representation ---------------------------------------------------

type qOp struct {
	Kind string `json:"op"` // add remove drain size empty array iter removeall close
	Val  int    `json:"val,omitempty"`
}

type qTask struct {
	Role string `json:"role"`
	Ops  []qOp  `json:"ops"`
}

type qProgram struct {
	Shape    string  `json:"shape"`
	Capacity int     `json:"capacity"`
	Tasks    []qTask `json:"tasks"`
	Closer   bool    `json:"closer"`
}

// qEvent is one API call in the recorded history.
type qEvent struct {
	Task     int    `json:"task"`
	Kind     string `json:"op"`
	Val      int    `json:"val,omitempty"`
	Inv      int64  `json:"inv"`
	Ret      int64  `json:"ret"`
	Returned bool   `json:"returned"`
	Panic    string `json:"panic,omitempty"`
	OutVal   int    `json:"out,omitempty"`
	OutOK    bool   `json:"ok,omitempty"`
	OutSize  int    `json:"size,omitempty"`
	OutArr   []int  `json:"arr,omitempty"`
}

type qHistory struct {
	events []*qEvent
}

const inf = math.MaxInt64 / 4

// call wraps one API call: a scheduling point, the invoke stamp, the call, the
// return stamp.  A panic ends the calling task's script.
func (h *qHistory) call(task int, kind string, val int, f func(e *qEvent)) (ok bool) {
	simrt.Yield()
	e := &qEvent{Task: task, Kind: kind, Val: val, Inv: simrt.Seq(), Ret: inf}
	h.events = append(h.events, e)
	defer func() {
		if e.Returned {
			return
		}
		if r := recover(); r != nil {
			e.Panic = fmt.Sprint(r)
			e.Ret = simrt.Seq()
			ok = false
		}
	}()
	f(e)
	e.Ret = simrt.Seq()
	e.Returned = true
	return true
}

// ---- execution ------------------------------------------------------------------

type qRun struct {
	prog  *qProgram
	hist  *qHistory
	queue col.QueueLike[int]
	res   *simrt.Result
	// post-mortem observations (taken with the simulation stopped)
	finalSize  int
	finalArr   []int
	finalEmpty bool
	postPanic  string
}

func runQueueProgram(ctx *Ctx, prog *qProgram) *qRun {
	qr := &qRun{prog: prog, hist: &qHistory{}}
	res := ctx.Sim(nil, func() {
		notation := cdcn.Notation().Make()
		q := col.Queue[int](notation).MakeWithCapacity(uint(prog.Capacity))
		qr.queue = q
		var producers simrt.WaitGroup
		for _, t := range prog.Tasks {
			if t.Role == "producer" {
				producers.Add(1)
			}
		}
		for ti, t := range prog.Tasks {
			ti, t := ti, t
			simrt.GoNamed(fmt.Sprintf("%s%d", t.Role, ti), func() {
				if t.Role == "producer" {
					defer producers.Done()
				}
				if t.Role == "closer" {
					producers.Wait()
				}
				for _, op := range t.Ops {
					if !qr.exec(ti, op) {
						return
					}
				}
			})
		}
	})
	qr.res = res
	// Post-mortem: the simulation is stopped, every task is parked or gone, so
	// these calls see a frozen state.
	func() {
		defer func() {
			if r := recover(); r != nil {
				qr.postPanic = fmt.Sprint(r)
			}
		}()
		if qr.queue != nil {
			qr.finalSize = qr.queue.GetSize()
			qr.finalArr = qr.queue.AsArray()
			qr.finalEmpty = qr.queue.IsEmpty()
		}
	}()
	return qr
}

func (qr *qRun) exec(ti int, op qOp) bool {
	q := qr.queue
	h := qr.hist
	switch op.Kind {
	case "add":
		return h.call(ti, "add", op.Val, func(e *qEvent) { q.AddValue(op.Val) })
	case "remove":
		return h.call(ti, "remove", 0, func(e *qEvent) { e.OutVal, e.OutOK = q.RemoveHead() })
	case "drain":
		for {
			var got bool
			if !h.call(ti, "remove", 0, func(e *qEvent) { e.OutVal, e.OutOK = q.RemoveHead(); got = e.OutOK }) {
				return false
			}
			if !got {
				return true
			}
		}
	case "size":
		return h.call(ti, "size", 0, func(e *qEvent) { e.OutSize = q.GetSize() })
	case "empty":
		return h.call(ti, "empty", 0, func(e *qEvent) { e.OutOK = q.IsEmpty() })
	case "array":
		return h.call(ti, "array", 0, func(e *qEvent) { e.OutArr = q.AsArray() })
	case "iter":
		return h.call(ti, "iter", 0, func(e *qEvent) {
			it := q.GetIterator()
			for it.HasNext() {
				e.OutArr = append(e.OutArr, it.GetNext())
			}
		})
	case "removeall":
		return h.call(ti, "removeall", 0, func(e *qEvent) { q.RemoveAll() })
	case "close":
		return h.call(ti, "close", 0, func(e *qEvent) { q.CloseQueue() })
	}
	panic("unknown op " + op.Kind)
}

// ---- program generators -----------------------------------------------------------

func genObserver(t *simrt.Tape) qTask {
	kinds := []string{"size", "empty", "array", "iter"}
	n := t.Range(1, 3)
	task := qTask{Role: "observer"}
	for i := 0; i < n; i++ {
		task.Ops = append(task.Ops, qOp{Kind: kinds[t.Choose(4)]})
	}
	return task
}

// genC04 draws a small client program for the linearizability check.  Tape
// value 0 always means the smaller/simpler alternative.
func genC04(t *simrt.Tape, big bool) *qProgram {
	p := &qProgram{Shape: "c04", Capacity: t.Range(1, 3)}
	np := t.Range(1, 3)
	maxVals := 3
	if big {
		// larger programs (thorough tier): the linearizability oracle is skipped
		// beyond 48 operations, every other oracle still applies
		p.Shape = "c04-large"
		p.Capacity = t.Range(1, 5)
		np = t.Range(2, 5)
		maxVals = 6
	}
	for i := 0; i < np; i++ {
		n := t.Range(1, maxVals)
		task := qTask{Role: "producer"}
		for k := 0; k < n; k++ {
			task.Ops = append(task.Ops, qOp{Kind: "add", Val: (i+1)*10 + k + 1})
		}
		p.Tasks = append(p.Tasks, task)
	}
	p.Closer = t.Choose(2) == 1
	nc := t.Range(0, 3)
	if big {
		nc = t.Range(1, 5)
	}
	for i := 0; i < nc; i++ {
		task := qTask{Role: "consumer"}
		if p.Closer && t.Choose(2) == 1 {
			task.Ops = []qOp{{Kind: "drain"}}
		} else {
			n := t.Range(1, maxVals)
			for k := 0; k < n; k++ {
				task.Ops = append(task.Ops, qOp{Kind: "remove"})
			}
		}
		p.Tasks = append(p.Tasks, task)
	}
	no := t.Choose(3)
	for i := 0; i < no; i++ {
		p.Tasks = append(p.Tasks, genObserver(t))
	}
	if t.Choose(3) == 2 {
		n := t.Range(1, 2)
		task := qTask{Role: "resetter"}
		for k := 0; k < n; k++ {
			task.Ops = append(task.Ops, qOp{Kind: "removeall"})
		}
		p.Tasks = append(p.Tasks, task)
	}
	if p.Closer {
		p.Tasks = append(p.Tasks, qTask{Role: "closer", Ops: []qOp{{Kind: "close"}}})
	}
	return p
}

// genStress draws a many-goroutine program with large parameters (capacity up to
// 16, up to 8 producers and 8 consumers, up to 64 values).  The linearizability
// search is skipped for these (too long); every other oracle applies, plus the
// per-producer order oracle.
func genStress(t *simrt.Tape, pipeline bool) *qProgram {
	p := &qProgram{Shape: "stress", Capacity: t.Range(4, 16)}
	if pipeline {
		p.Shape = "pipeline"
	}
	np := t.Range(3, 8)
	for i := 0; i < np; i++ {
		n := t.Range(2, 8)
		task := qTask{Role: "producer"}
		for k := 0; k < n; k++ {
			task.Ops = append(task.Ops, qOp{Kind: "add", Val: (i+1)*100 + k + 1})
		}
		p.Tasks = append(p.Tasks, task)
	}
	p.Closer = pipeline || t.Choose(2) == 1
	nc := t.Range(2, 8)
	for i := 0; i < nc; i++ {
		task := qTask{Role: "consumer"}
		if p.Closer && (pipeline || t.Choose(2) == 1) {
			task.Ops = []qOp{{Kind: "drain"}}
		} else {
			n := t.Range(1, 8)
			for k := 0; k < n; k++ {
				task.Ops = append(task.Ops, qOp{Kind: "remove"})
			}
		}
		p.Tasks = append(p.Tasks, task)
	}
	no := t.Choose(3)
	for i := 0; i < no; i++ {
		p.Tasks = append(p.Tasks, genObserver(t))
	}
	if t.Choose(3) == 2 {
		n := t.Range(1, 3)
		task := qTask{Role: "resetter"}
		for k := 0; k < n; k++ {
			task.Ops = append(task.Ops, qOp{Kind: "removeall"})
		}
		p.Tasks = append(p.Tasks, task)
	}
	if p.Closer {
		p.Tasks = append(p.Tasks, qTask{Role: "closer", Ops: []qOp{{Kind: "close"}}})
	}
	return p
}

// genC05 draws a well-formed pipeline or an open program.
func genC05(t *simrt.Tape) *qProgram {
	p := &qProgram{Capacity: t.Range(1, 3)}
	open := t.Choose(5) >= 3
	np := t.Range(1, 3)
	total := 0
	for i := 0; i < np; i++ {
		n := t.Range(1, 4)
		task := qTask{Role: "producer"}
		for k := 0; k < n; k++ {
			task.Ops = append(task.Ops, qOp{Kind: "add", Val: (i+1)*10 + k + 1})
			total++
		}
		p.Tasks = append(p.Tasks, task)
	}
	nc := t.Range(1, 3)
	if !open {
		p.Shape = "pipeline"
		p.Closer = true
		for i := 0; i < nc; i++ {
			p.Tasks = append(p.Tasks, qTask{Role: "consumer", Ops: []qOp{{Kind: "drain"}}})
		}
	} else {
		p.Shape = "open"
		p.Closer = t.Choose(3) == 2
		for i := 0; i < nc; i++ {
			task := qTask{Role: "consumer"}
			n := t.Range(0, total+1)
			for k := 0; k < n; k++ {
				task.Ops = append(task.Ops, qOp{Kind: "remove"})
			}
			if len(task.Ops) > 0 {
				p.Tasks = append(p.Tasks, task)
			}
		}
	}
	if t.Choose(3) == 2 {
		n := t.Range(1, 2)
		task := qTask{Role: "resetter"}
		for k := 0; k < n; k++ {
			task.Ops = append(task.Ops, qOp{Kind: "removeall"})
		}
		p.Tasks = append(p.Tasks, task)
	}
	if t.Choose(4) == 3 {
		p.Tasks = append(p.Tasks, genObserver(t))
	}
	if p.Closer {
		p.Tasks = append(p.Tasks, qTask{Role: "closer", Ops: []qOp{{Kind: "close"}}})
	}
	return p
}

// ---- oracles ------------------------------------------------------------------------

type qOracle struct {
	ctx  *Ctx
	qr   *qRun
	ev   []*qEvent
	adds map[int]*qEvent // value -> add event
	dels map[int]*qEvent // value -> RemoveHead that delivered it
	ras  []*qEvent       // RemoveAll calls (returned or not)
	need map[*qEvent]int
}

func (o *qOracle) v(prop, class, sig, msg string) { o.ctx.Violate(prop, class, sig, msg) }

func describeHistory(ev []*qEvent) string {
	var b strings.Builder
	for _, e := range ev {
		ret := "pending"
		if e.Returned {
			ret = fmt.Sprint(e.Ret)
		} else if e.Panic != "" {
			ret = "panic@" + fmt.Sprint(e.Ret)
		}
		fmt.Fprintf(&b, "[t%d %s", e.Task, e.Kind)
		switch e.Kind {
		case "add":
			fmt.Fprintf(&b, "(%d)", e.Val)
		case "remove":
			if e.Returned {
				fmt.Fprintf(&b, "->(%d,%v)", e.OutVal, e.OutOK)
			}
		case "size":
			fmt.Fprintf(&b, "->%d", e.OutSize)
		case "empty":
			fmt.Fprintf(&b, "->%v", e.OutOK)
		case "array", "iter":
			fmt.Fprintf(&b, "->%v", e.OutArr)
		}
		fmt.Fprintf(&b, " %d..%s] ", e.Inv, ret)
	}
	return b.String()
}

func checkQueueRun(ctx *Ctx, qr *qRun, linearize bool) {
	o := &qOracle{ctx: ctx, qr: qr, ev: qr.hist.events, adds: map[int]*qEvent{}, dels: map[int]*qEvent{}, need: map[*qEvent]int{}}
	res := qr.res
	hist := describeHistory(o.ev)

	// -- no panic (C04): every generated call is valid on its own.
	for _, e := range o.ev {
		if e.Panic != "" {
			o.v("C04", "panic", "panic:"+e.Kind+":"+normMsg(e.Panic), fmt.Sprintf("%s panicked: %s; history: %s", e.Kind, e.Panic, hist))
		}
	}
	for _, t := range res.Tasks {
		if t.Panicked {
			o.v("C04", "panic", "panic:task:"+normMsg(t.PanicStr), fmt.Sprintf("task %s panicked: %s\n%s", t.Name, t.PanicStr, t.Stack))
		}
	}
	if qr.postPanic != "" {
		o.v("C04", "panic", "panic:post-mortem:"+normMsg(qr.postPanic), "observer call on the quiescent queue panicked: "+qr.postPanic)
	}
	// -- no data race (C04)
	for _, r := range res.Races {
		o.v("C04", "race", r.Sig, fmt.Sprintf("%s race on %s: %s (task %d) vs %s (task %d)", r.Kind, r.Var, r.SiteA, r.TaskA, r.SiteB, r.TaskB))
	}
	if res.End == "stepcap" {
		// The run was cut off.  For a program that must terminate (pipeline) that
		// is a violation.  For the others it is what a queue that waits by
		// polling looks like (a spinning wait never parks): the calls still in
		// progress are then judged like parked ones - each must be justified by
		// the queue's state - and every other oracle applies to the history so far.
		o.ctx.Probe("run_cut_at_step_cap")
		if qr.prog.Shape == "pipeline" {
			o.v("C05", "no-quiescence", "stepcap:pipeline", "a well-formed pipeline did not terminate within the step cap; "+res.String()+"; history: "+hist)
			return
		}
	}

	// index the history
	closeInv, closeRet := int64(inf), int64(inf)
	for _, e := range o.ev {
		switch e.Kind {
		case "add":
			o.adds[e.Val] = e
		case "remove":
			if e.Returned && e.OutOK {
				if prev := o.dels[e.OutVal]; prev != nil {
					o.v("C04", "duplicate-delivery", "dup", fmt.Sprintf("value %d delivered twice; history: %s", e.OutVal, hist))
				}
				o.dels[e.OutVal] = e
			}
		case "removeall":
			o.ras = append(o.ras, e)
		case "close":
			if e.Inv < closeInv {
				closeInv, closeRet = e.Inv, e.Ret
			}
		}
	}
	_ = closeRet
	for _, v := range sortedValueKeys(o.dels) {
		d := o.dels[v]
		a := o.adds[v]
		if a == nil {
			o.v("C04", "invented-value", "invented", fmt.Sprintf("value %d delivered but never added; history: %s", v, hist))
		} else if d.Ret < a.Inv {
			o.v("C04", "invented-value", "delivered-before-added", fmt.Sprintf("value %d delivered before its AddValue was invoked; history: %s", v, hist))
		}
	}
	// need(RA): a provable lower bound on the number of values a RemoveAll discards.
	for _, ra := range o.ras {
		if !ra.Returned {
			continue
		}
		n := 0
		for _, a := range o.adds {
			if a.Returned && a.Ret < ra.Inv {
				n++
			}
		}
		for _, e := range o.ev {
			if e.Kind == "remove" && e.Inv < ra.Ret && !(e.Returned && !e.OutOK) {
				n--
			}
		}
		for _, other := range o.ras {
			if other != ra && other.Inv < ra.Ret {
				for _, a := range o.adds {
					if a.Inv < other.Ret {
						n--
					}
				}
			}
		}
		if n < 0 {
			n = 0
		}
		o.need[ra] = n
	}

	// -- ok=false only once closed (C04)
	for _, e := range o.ev {
		if e.Kind == "remove" && e.Returned && !e.OutOK && closeInv >= e.Ret {
			o.v("C04", "false-before-close", "ok=false-unclosed", fmt.Sprintf("RemoveHead reported ok=false although CloseQueue had not been invoked; history: %s", hist))
		}
	}

	// -- back-pressure (C04): before any RemoveAll is invoked
	firstRA := int64(inf)
	for _, ra := range o.ras {
		if ra.Inv < firstRA {
			firstRA = ra.Inv
		}
	}
	for _, a := range o.ev {
		if a.Kind != "add" || !a.Returned || a.Ret > firstRA {
			continue
		}
		returned, claimed := 0, 0
		for _, e := range o.ev {
			if e.Kind == "add" && e.Returned && e.Ret <= a.Ret {
				returned++
			}
			if e.Kind == "remove" && e.Inv < a.Ret {
				claimed++
			}
		}
		if returned-claimed > qr.prog.Capacity {
			o.v("C04", "back-pressure", "add-returned-beyond-capacity", fmt.Sprintf("AddValue(%d) returned with %d completed additions and only %d RemoveHead calls invoked (capacity %d); history: %s", a.Val, returned, claimed, qr.prog.Capacity, hist))
		}
	}

	// -- observers (C04)
	for _, e := range o.ev {
		if !e.Returned {
			continue
		}
		switch e.Kind {
		case "size", "empty", "array", "iter":
			o.checkObserver(e, hist)
		}
	}
	// post-mortem observer: nothing overlaps it
	allDone := res.End == "done"
	if qr.postPanic == "" {
		pm := &qEvent{Kind: "size", Inv: inf - 2, Ret: inf - 1, Returned: true, OutSize: qr.finalSize}
		o.checkObserver(pm, hist+" [post-mortem]")
		pm2 := &qEvent{Kind: "array", Inv: inf - 2, Ret: inf - 1, Returned: true, OutArr: qr.finalArr}
		o.checkObserver(pm2, hist+" [post-mortem]")
		pm3 := &qEvent{Kind: "empty", Inv: inf - 2, Ret: inf - 1, Returned: true, OutOK: qr.finalEmpty}
		o.checkObserver(pm3, hist+" [post-mortem]")
		if allDone && qr.finalSize != len(qr.finalArr) {
			o.v("C04", "size-array-disagree", "quiescent-size!=len(array)", fmt.Sprintf("with every call returned GetSize()=%d but AsArray()=%v; history: %s", qr.finalSize, qr.finalArr, hist))
		}
	}

	// -- order of one producer's values (C04): if AddValue(a) returned before
	// AddValue(b) was invoked, b must not be delivered strictly before a.
	for _, va := range sortedValueKeys(o.adds) {
		a := o.adds[va]
		for _, vb := range sortedValueKeys(o.adds) {
			b := o.adds[vb]
			if va == vb || !a.Returned || !(a.Ret < b.Inv) {
				continue
			}
			da, db := o.dels[va], o.dels[vb]
			if db == nil {
				continue
			}
			if da != nil && db.Ret < da.Inv {
				o.v("C04", "fifo-order", "later-add-delivered-first", fmt.Sprintf("value %d was added strictly before %d but delivered strictly after it; history: %s", va, vb, hist))
			}
			if da == nil && len(o.ras) == 0 && res.End == "done" && allDone {
				o.v("C04", "fifo-order", "earlier-add-never-delivered", fmt.Sprintf("value %d (added strictly before %d) was never delivered although %d was and no RemoveAll ran; history: %s", va, vb, vb, hist))
			}
		}
	}

	// -- linearizability (C04)
	if linearize && qr.prog.Shape != "stress" && qr.prog.Capacity <= 5 {
		o.checkLinearizable(hist)
	}

	// -- C05 oracles
	o.checkProgress(hist)
}

// checkObserver applies the interval reasoning of DESIGN.md §3.1-6.
func (o *qOracle) checkObserver(e *qEvent, hist string) {
	c := o.qr.prog.Capacity
	raInvokedBefore := false
	needDone := 0
	for _, ra := range o.ras {
		if ra.Inv < e.Ret {
			raInvokedBefore = true
		}
		if ra.Returned && ra.Ret < e.Inv {
			needDone += o.need[ra]
		}
	}
	switch e.Kind {
	case "size", "empty":
		lo, hi := 0, 0
		for _, a := range o.adds {
			if a.Returned && a.Ret < e.Inv {
				lo++
			}
			if a.Inv < e.Ret {
				hi++
			}
		}
		for _, r := range o.ev {
			if r.Kind != "remove" {
				continue
			}
			if r.Inv < e.Ret && !(r.Returned && !r.OutOK) {
				lo--
			}
			if r.Returned && r.OutOK && r.Ret < e.Inv {
				hi--
			}
		}
		hi -= needDone
		if raInvokedBefore || lo < 0 {
			lo = 0
		}
		if hi > c {
			hi = c
		}
		if e.Kind == "size" {
			if e.OutSize > c {
				o.v("C04", "size-exceeds-capacity", "GetSize>capacity", fmt.Sprintf("GetSize()=%d exceeds capacity %d; history: %s", e.OutSize, c, hist))
			} else if e.OutSize < lo || e.OutSize > hi {
				o.v("C04", "observer-size", "GetSize-out-of-bounds", fmt.Sprintf("GetSize()=%d at %d..%d outside [%d,%d]; history: %s", e.OutSize, e.Inv, e.Ret, lo, hi, hist))
			}
		} else {
			if e.OutOK && lo > 0 {
				o.v("C04", "observer-empty", "IsEmpty-true-but-nonempty", fmt.Sprintf("IsEmpty()=true at %d..%d although at least %d values were present; history: %s", e.Inv, e.Ret, lo, hist))
			}
			if !e.OutOK && hi <= 0 {
				o.v("C04", "observer-empty", "IsEmpty-false-but-empty", fmt.Sprintf("IsEmpty()=false at %d..%d although no value could be present; history: %s", e.Inv, e.Ret, hist))
			}
		}
	case "array", "iter":
		seen := map[int]bool{}
		for _, v := range e.OutArr {
			if seen[v] {
				o.v("C04", "observer-array", "duplicate-in-array", fmt.Sprintf("%s returned %v with a duplicate; history: %s", e.Kind, e.OutArr, hist))
			}
			seen[v] = true
			a := o.adds[v]
			if a == nil || a.Inv >= e.Ret {
				o.v("C04", "observer-array", "array-shows-unadded-value", fmt.Sprintf("%s at %d..%d returned %v containing %d which had not been added; history: %s", e.Kind, e.Inv, e.Ret, e.OutArr, v, hist))
				continue
			}
			if d := o.dels[v]; d != nil && d.Ret < e.Inv {
				o.v("C04", "observer-array", "array-shows-removed-value", fmt.Sprintf("%s at %d..%d returned %v containing %d which had already been delivered; history: %s", e.Kind, e.Inv, e.Ret, e.OutArr, v, hist))
			}
		}
		// values that must be present
		for _, v := range sortedValueKeys(o.adds) {
			a := o.adds[v]
			if !(a.Returned && a.Ret < e.Inv) || seen[v] {
				continue
			}
			if d := o.dels[v]; d != nil {
				if d.Inv < e.Ret {
					continue
				}
			}
			maybeDiscarded := false
			for _, ra := range o.ras {
				if ra.Inv < e.Ret && ra.Ret > a.Inv {
					maybeDiscarded = true
				}
			}
			if maybeDiscarded {
				continue
			}
			o.v("C04", "observer-array", "array-misses-present-value", fmt.Sprintf("%s at %d..%d returned %v without %d, which was added and not removed; history: %s", e.Kind, e.Inv, e.Ret, e.OutArr, v, hist))
		}
		// order: must not contradict FIFO
		for i := 0; i < len(e.OutArr); i++ {
			for j := i + 1; j < len(e.OutArr); j++ {
				u, w := e.OutArr[i], e.OutArr[j]
				au, aw := o.adds[u], o.adds[w]
				if au == nil || aw == nil {
					continue
				}
				if aw.Returned && aw.Ret < au.Inv {
					o.v("C04", "observer-array", "array-order", fmt.Sprintf("%s returned %v: %d before %d although %d was added strictly earlier; history: %s", e.Kind, e.OutArr, u, w, w, hist))
				}
				du, dw := o.dels[u], o.dels[w]
				if du != nil && dw != nil && dw.Ret < du.Inv {
					o.v("C04", "observer-array", "array-order", fmt.Sprintf("%s returned %v: %d before %d although %d was delivered strictly earlier; history: %s", e.Kind, e.OutArr, u, w, w, hist))
				}
			}
		}
	}
}

func sortedValueKeys(m map[int]*qEvent) []int {
	ks := make([]int, 0, len(m))
	for k := range m {
		ks = append(ks, k)
	}
	sort.Ints(ks)
	return ks
}

// ---- linearizability against a nondeterministic FIFO model ---------------------------

type linIn struct {
	kind    string // add, addMaybe, remove, removeFalse, close, mustDiscard, maybeDiscard
	val     int
	pending bool
}

// fifoNondetStep: the nondeterministic FIFO model.  State "v1,v2,...|c" (c = o
// open / c closed); returns every possible next state, none if the operation
// cannot happen in this state.
func fifoNondetStep(s string, in linIn) []string {
	i := strings.IndexByte(s, '|')
	closed := s[i+1:] == "c"
	var vals []string
	if i > 0 {
		vals = strings.Split(s[:i], ",")
	}
	mk := func(vals []string, closed bool) string {
		c := "o"
		if closed {
			c = "c"
		}
		return strings.Join(vals, ",") + "|" + c
	}
	switch in.kind {
	case "add":
		return []string{mk(append(append([]string{}, vals...), fmt.Sprint(in.val)), closed)}
	case "addMaybe":
		return []string{s, mk(append(append([]string{}, vals...), fmt.Sprint(in.val)), closed)}
	case "remove":
		if len(vals) > 0 && vals[0] == fmt.Sprint(in.val) {
			return []string{mk(vals[1:], closed)}
		}
		return nil
	case "removeFalse":
		if closed && len(vals) == 0 {
			return []string{s}
		}
		return nil
	case "close":
		return []string{mk(vals, true)}
	case "mustDiscard":
		if len(vals) > 0 {
			return []string{mk(vals[1:], closed)}
		}
		return nil
	case "maybeDiscard":
		if len(vals) > 0 {
			return []string{s, mk(vals[1:], closed)}
		}
		return []string{s}
	}
	return nil
}

func fifoModel() porcupine.Model {
	nm := porcupine.NondeterministicModel{
		Init: func() []interface{} { return []interface{}{"|o"} },
		Step: func(state, input, output interface{}) []interface{} {
			var out []interface{}
			for _, s := range fifoNondetStep(state.(string), input.(linIn)) {
				out = append(out, s)
			}
			return out
		},
		Equal: func(a, b interface{}) bool { return a.(string) == b.(string) },
	}
	return nm.ToModel()
}

var theFifoModel = fifoModel()

func (o *qOracle) checkLinearizable(hist string) {
	var ops []porcupine.Operation
	maxStamp := int64(0)
	for _, e := range o.ev {
		if e.Inv > maxStamp {
			maxStamp = e.Inv
		}
		if e.Ret < inf && e.Ret > maxStamp {
			maxStamp = e.Ret
		}
	}
	end := maxStamp + 10
	id := 0
	addOp := func(task int, in linIn, call, ret int64) {
		ops = append(ops, porcupine.Operation{ClientId: id, Input: in, Call: call, Output: nil, Return: ret})
		id++
	}
	for _, e := range o.ev {
		switch e.Kind {
		case "add":
			if e.Returned {
				addOp(e.Task, linIn{kind: "add", val: e.Val}, e.Inv, e.Ret)
			} else {
				addOp(e.Task, linIn{kind: "addMaybe", val: e.Val}, e.Inv, end)
			}
		case "remove":
			if e.Returned && e.OutOK {
				addOp(e.Task, linIn{kind: "remove", val: e.OutVal}, e.Inv, e.Ret)
			} else if e.Returned {
				addOp(e.Task, linIn{kind: "removeFalse"}, e.Inv, e.Ret)
			}
			// a RemoveHead that never returned delivered nothing
		case "close":
			ret := e.Ret
			if !e.Returned {
				ret = end
			}
			addOp(e.Task, linIn{kind: "close"}, e.Inv, ret)
		case "removeall":
			ret := e.Ret
			if !e.Returned {
				ret = end
			}
			// A discard only matters for a value that no RemoveHead delivered.
			k := 0
			for v, a := range o.adds {
				if a.Inv < ret && o.dels[v] == nil {
					k++
				}
			}
			need := o.need[e]
			if need > k {
				need = k
			}
			for i := 0; i < need; i++ {
				addOp(e.Task, linIn{kind: "mustDiscard"}, e.Inv, ret)
			}
			for i := need; i < k; i++ {
				addOp(e.Task, linIn{kind: "maybeDiscard"}, e.Inv, ret)
			}
		}
	}
	if len(ops) == 0 {
		return
	}
	limit := 48
	if o.qr.prog.Shape == "c04-large" {
		limit = 16 // large programs: the search cost explodes long before 48 operations
	}
	if len(ops) > limit {
		o.ctx.Probe("linearizability_skipped_history_too_long")
		return
	}
	r := porcupine.Unknown
	if os.Getenv("VERIF_FORCE_BOUNDED_SEARCH") == "" { // set only to test the fallback itself
		r = porcupine.CheckOperationsTimeout(theFifoModel, ops, 3*time.Second)
	}
	switch r {
	case porcupine.Illegal:
		o.v("C04", "nonlinearizable", "fifo", "no FIFO order consistent with real time explains the history: "+hist)
	case porcupine.Unknown:
		// porcupine's bound is wall-clock time; so that the verdict does not
		// depend on how loaded the machine is, the history is decided again by a
		// search bounded by a number of visited nodes
		switch boundedLinearizable(ops, 400000) {
		case linYes:
			o.ctx.Probe("linearizability_checked_by_bounded_search")
		case linNo:
			o.v("C04", "nonlinearizable", "fifo", "no FIFO order consistent with real time explains the history: "+hist)
		default:
			o.ctx.Probe("linearizability_inconclusive_node_budget")
		}
	default:
		o.ctx.Probe("linearizability_checked")
	}
}

const (
	linYes = iota
	linNo
	linBudget
)

// boundedLinearizable is a plain Wing-Gong search over the same
// nondeterministic FIFO model (sets of model states), memoised on (operations
// linearized so far, state set), and bounded by a node budget instead of time.
func boundedLinearizable(ops []porcupine.Operation, budget int) int {
	n := len(ops)
	if n > 62 {
		return linBudget
	}
	step := fifoNondetStep
	type key struct {
		done   uint64
		states string
	}
	seen := map[key]bool{}
	nodes := 0
	full := uint64(1)<<uint(n) - 1
	var search func(done uint64, states []string) int
	search = func(done uint64, states []string) int {
		if done == full {
			return linYes
		}
		nodes++
		if nodes > budget {
			return linBudget
		}
		k := key{done, strings.Join(states, ";")}
		if seen[k] {
			return linNo
		}
		seen[k] = true
		minRet := int64(math.MaxInt64)
		for i := 0; i < n; i++ {
			if done&(1<<uint(i)) == 0 && ops[i].Return < minRet {
				minRet = ops[i].Return
			}
		}
		result := linNo
		for i := 0; i < n; i++ {
			if done&(1<<uint(i)) != 0 || ops[i].Call > minRet {
				continue
			}
			set := map[string]bool{}
			for _, s := range states {
				for _, ns := range step(s, ops[i].Input.(linIn)) {
					set[ns] = true
				}
			}
			if len(set) == 0 {
				continue
			}
			next := make([]string, 0, len(set))
			for s := range set {
				next = append(next, s)
			}
			sort.Strings(next)
			switch search(done|1<<uint(i), next) {
			case linYes:
				return linYes
			case linBudget:
				result = linBudget
			}
		}
		return result
	}
	return search(0, []string{"|o"})
}

// ---- progress (C05) ---------------------------------------------------------------------

func (o *qOracle) checkProgress(hist string) {
	qr := o.qr
	res := qr.res
	prog := qr.prog
	closed := false
	for _, e := range o.ev {
		if e.Kind == "close" && e.Returned {
			closed = true
		}
	}
	raUsed := len(o.ras) > 0
	raTag := "removeall=no"
	if raUsed {
		raTag = "removeall=yes"
	}
	// pending calls at the end of the run
	var pend []*qEvent
	for _, e := range o.ev {
		if !e.Returned && e.Panic == "" {
			pend = append(pend, e)
		}
	}
	anyPanic := false
	for _, e := range o.ev {
		if e.Panic != "" {
			anyPanic = true
		}
	}
	for _, t := range res.Tasks {
		if t.Panicked {
			anyPanic = true
		}
	}
	if anyPanic {
		return // reported under C04; what blocks afterwards is a consequence
	}
	if prog.Shape == "pipeline" {
		if res.End != "done" {
			kinds := map[string]bool{}
			for _, e := range pend {
				kinds[e.Kind] = true
			}
			var ks []string
			for k := range kinds {
				ks = append(ks, k)
			}
			sort.Strings(ks)
			o.v("C05", "pipeline-deadlock", "blocked="+strings.Join(ks, "+")+":"+raTag,
				fmt.Sprintf("well-formed pipeline did not terminate: %s; size=%d capacity=%d; history: %s", res.String(), qr.finalSize, prog.Capacity, hist))
			return
		}
		// every value consumed (or discardable by a RemoveAll)
		for _, v := range sortedValueKeys(o.adds) {
			a := o.adds[v]
			if o.dels[v] != nil {
				continue
			}
			disc := false
			for _, ra := range o.ras {
				if ra.Ret > a.Inv {
					disc = true
				}
			}
			if !disc {
				o.v("C05", "pipeline-value-lost", "value-not-consumed:"+raTag, fmt.Sprintf("pipeline terminated but value %d was never consumed; history: %s", v, hist))
			}
		}
		return
	}
	// open programs and C04 programs: every parked call must be justified by the
	// queue's own (frozen) state.
	if qr.postPanic != "" {
		return
	}
	for _, e := range pend {
		switch e.Kind {
		case "remove":
			if qr.finalSize > 0 {
				o.v("C05", "unjustified-block", "RemoveHead-blocked:size>0:"+raTag, fmt.Sprintf("RemoveHead waits forever although GetSize()=%d; %s; history: %s", qr.finalSize, res.String(), hist))
			} else if closed {
				o.v("C05", "unjustified-block", "RemoveHead-blocked:closed:"+raTag, fmt.Sprintf("RemoveHead waits forever although the queue is closed; %s; history: %s", res.String(), hist))
			}
		case "add":
			if qr.finalSize < prog.Capacity {
				o.v("C05", "unjustified-block", "AddValue-blocked:size<capacity:"+raTag, fmt.Sprintf("AddValue(%d) waits forever although GetSize()=%d < capacity %d; %s; history: %s", e.Val, qr.finalSize, prog.Capacity, res.String(), hist))
			}
		default:
			o.v("C05", "unjustified-block", e.Kind+"-blocked:"+raTag, fmt.Sprintf("%s never returned; %s; history: %s", e.Kind, res.String(), hist))
		}
	}
}
