package simrt

import "io"

// splitmix is the only PRNG; every random choice in a run derives from it.
type splitmix struct{ x uint64 }

func (r *splitmix) next() uint64 {
	r.x += 0x9e3779b97f4a7c15
	z := r.x
	z = (z ^ (z >> 30)) * 0xbf58476d1ce4e5b9
	z = (z ^ (z >> 27)) * 0x94d049bb133111eb
	return z ^ (z >> 31)
}

func (r *splitmix) float() float64 { return float64(r.next()>>11) / (1 << 53) }

// Mix derives the seed of run i of a batch from the batch seed.
func Mix(seed uint64, i uint64) uint64 {
	r := splitmix{x: seed ^ (i+1)*0xd1342543de82ef95}
	r.next()
	return r.next()
}

// Tape is a sequence of bounded draws.  In record mode the values come from a
// PRNG and are appended; in replay mode they are read back, and draws past the
// end return 0 (always the "simplest" alternative).
type Tape struct {
	Cells  []uint32
	pos    int
	replay bool
	rng    splitmix
}

func NewTape(seed uint64) *Tape { return &Tape{rng: splitmix{x: seed}} }

func ReplayTape(cells []uint32) *Tape { return &Tape{Cells: cells, replay: true} }

// Choose returns a value in [0,n).
func (t *Tape) Choose(n int) int {
	if n <= 1 {
		if n == 1 {
			// still consume a cell so that tapes stay aligned when bounds vary
		}
		if t.replay {
			t.pos++
		} else {
			t.Cells = append(t.Cells, 0)
		}
		return 0
	}
	if t.replay {
		v := 0
		if t.pos < len(t.Cells) {
			v = int(t.Cells[t.pos])
		}
		t.pos++
		return v % n
	}
	v := int(t.rng.next() % uint64(n))
	t.Cells = append(t.Cells, uint32(v))
	return v
}

// Bool returns true with probability num/den.
func (t *Tape) Bool(num, den int) bool {
	if t.replay {
		return t.Choose(2) == 1
	}
	v := 0
	if int(t.rng.next()%uint64(den)) < num {
		v = 1
	}
	t.Cells = append(t.Cells, uint32(v))
	return v == 1
}

// Range returns a value in [lo,hi].
func (t *Tape) Range(lo, hi int) int { return lo + t.Choose(hi-lo+1) }

// Used returns the consumed prefix (replay) or everything recorded.
func (t *Tape) Used() []uint32 {
	if t.replay && t.pos < len(t.Cells) {
		return t.Cells[:t.pos]
	}
	return t.Cells
}

type randReader struct{ r splitmix }

func (r *randReader) Read(p []byte) (int, error) {
	for i := range p {
		p[i] = byte(r.r.next())
	}
	return len(p), nil
}

// RandReader replaces crypto/rand.Reader in instrumented code: inside a
// simulation the stream derives from the run's RandSeed (or Seed), the task's
// key (a hash of its name for named tasks, so that the same logical task draws
// the same stream in a serial and in a concurrent execution) and the number of
// readers that task has obtained so far.
func RandReader() io.Reader {
	s := S
	if s == nil || s.cur == nil {
		return &randReader{r: splitmix{x: 0x1234567}}
	}
	t := s.cur
	t.randReads++
	s.probes["rand_reads"]++
	seed := s.cfg.RandSeed
	if seed == 0 {
		seed = s.cfg.Seed
	}
	return &randReader{r: splitmix{x: seed*31 + t.key*977 + uint64(t.randReads)}}
}
