package main

import (
	"encoding/json"
	"fmt"
	"hash/fnv"
	"os"
	"sort"
	"strings"
	"time"

	"verif.local/simrt"
)

// Violation is one oracle failure.  Class+Sig identify "the same violation"
// for minimisation, replay and the known-findings file; Sig is independent of
// the schedule and seed that exposed it.
type Violation struct {
	Property string `json:"property"`
	Class    string `json:"class"`
	Sig      string `json:"sig"`
	Msg      string `json:"msg"`
}

func (v Violation) Key() string { return v.Property + "|" + v.Class + "|" + v.Sig }

// Case is everything that determines one execution: the program tape and one
// schedule tape per simulated run inside the case.  In record mode the tapes
// are nil and derive from Seed.
type Case struct {
	Seed   uint64     `json:"seed"`
	Prog   []uint32   `json:"prog"`
	Scheds [][]uint32 `json:"scheds"`
	Replay bool       `json:"-"`
}

// CaseResult is what running a case produced.
type CaseResult struct {
	Violations []Violation
	Desc       any // JSON-able description of the generated program / input
	Sims       []*simrt.Result
	Key        uint64 // distinctness key of the case (program + interleaving)
	ProgKey    uint64
	NonTrivial bool
	Probes     map[string]int
	Prog       []uint32
	Scheds     [][]uint32
}

// Ctx is handed to the property code while it runs a case.
type Ctx struct {
	Seed   uint64
	Tier   string
	Prog   *simrt.Tape
	Res    *CaseResult
	replay bool
	scheds [][]uint32
	nsim   int
	keep   bool // keep events (replay / report)
}

func newCtx(c *Case, tier string, keep bool) *Ctx {
	ctx := &Ctx{Seed: c.Seed, Tier: tier, keep: keep, Res: &CaseResult{Probes: map[string]int{}}}
	if c.Replay {
		ctx.replay = true
		ctx.Prog = simrt.ReplayTape(c.Prog)
		ctx.scheds = c.Scheds
	} else {
		ctx.Prog = simrt.NewTape(simrt.Mix(c.Seed, 0))
	}
	return ctx
}

// ResetLibrary puts the instrumented packages back into first-use state.
var ResetLibrary = func() {}

// Sim runs root under the simulator with the next schedule of the case.
func (c *Ctx) Sim(tweak func(*simrt.Config), root func()) *simrt.Result {
	cfg := simrt.Config{Seed: simrt.Mix(c.Seed, uint64(1000+c.nsim)), Strategy: -1, KeepEvents: c.keep}
	// race-directed stalls in half of the runs (derived from the case seed so
	// that a replay makes the same draws)
	// clock jumps in half of the runs (only drawn when the code looks at the time)
	if simrt.Mix(c.Seed, uint64(3000+c.nsim))%2 == 1 {
		cfg.ClockJump = 0.02
	}
	switch simrt.Mix(c.Seed, uint64(2000+c.nsim)) % 4 {
	case 2:
		cfg.AccessStall = 0.03
	case 3:
		cfg.AccessStall = 0.15
	}
	if tweak != nil {
		tweak(&cfg)
	}
	if cfg.Watchdog == 0 {
		cfg.Watchdog = 60 * time.Second
	}
	if c.replay {
		cfg.Replay = []uint32{}
		if c.nsim < len(c.scheds) && c.scheds[c.nsim] != nil {
			cfg.Replay = c.scheds[c.nsim]
		}
	}
	c.nsim++
	ResetLibrary()
	r := simrt.Run(cfg, root)
	if r.End == "watchdog" {
		fmt.Fprintf(os.Stderr, "CANNOT-DECIDE: a task ran for %v without reaching a simulator operation (uninstrumented blocking or a CPU loop); seed=%d\n", cfg.Watchdog, c.Seed)
		os.Exit(2)
	}
	c.Res.Sims = append(c.Res.Sims, r)
	c.Res.Scheds = append(c.Res.Scheds, r.Tape)
	for k, v := range r.Probes {
		c.Res.Probes[k] += v
	}
	c.Res.Probes["strategy_"+r.Strategy]++
	c.Res.Probes["end_"+r.End]++
	return r
}

func (c *Ctx) Violate(prop, class, sig, msg string) {
	for _, v := range c.Res.Violations {
		if v.Property == prop && v.Class == class && v.Sig == sig {
			return
		}
	}
	c.Res.Violations = append(c.Res.Violations, Violation{Property: prop, Class: class, Sig: sig, Msg: msg})
}

func (c *Ctx) Probe(name string) { c.Res.Probes[name]++ }

// Property is one claimed property's workload + oracles.
type Property interface {
	ID() string
	// Cases returns how many cases the tier runs.
	Cases(tier string) int
	// Run generates (from ctx.Prog) and executes one case, filling ctx.Res.
	Run(ctx *Ctx, index int)
	// Meta describes the check for the evidence file.
	Meta() PropMeta
}

type PropMeta struct {
	Rule        string
	Assumptions []string
	Real        []string
	Stub        []string
	FaultKinds  []string // probe names that count as injected fault kinds
}

func runCase(p Property, c *Case, tier string, index int, keep bool) *CaseResult {
	ctx := newCtx(c, tier, keep)
	p.Run(ctx, index)
	ctx.Res.Prog = ctx.Prog.Used()
	if ctx.Res.Key == 0 {
		h := fnv.New64a()
		fmt.Fprintf(h, "%x", ctx.Res.ProgKey)
		for _, s := range ctx.Res.Sims {
			fmt.Fprintf(h, "|%x", s.TraceID)
		}
		ctx.Res.Key = h.Sum64()
	}
	return ctx.Res
}

func hashString(s string) uint64 {
	h := fnv.New64a()
	h.Write([]byte(s))
	return h.Sum64()
}

func jsonKey(v any) uint64 {
	b, _ := json.Marshal(v)
	h := fnv.New64a()
	h.Write(b)
	return h.Sum64()
}

// normMsg shortens a panic message into something stable enough for a
// signature (numbers and addresses removed).
func normMsg(s string) string {
	if i := strings.IndexByte(s, '\n'); i >= 0 {
		s = s[:i]
	}
	var b strings.Builder
	for _, r := range s {
		switch {
		case r >= '0' && r <= '9':
			if b.Len() == 0 || b.String()[b.Len()-1] != '#' {
				b.WriteByte('#')
			}
		default:
			b.WriteRune(r)
		}
	}
	out := b.String()
	if len(out) > 80 {
		out = out[:80]
	}
	return out
}

func sortedKeys(m map[string]int) []string {
	var ks []string
	for k := range m {
		ks = append(ks, k)
	}
	sort.Strings(ks)
	return ks
}
