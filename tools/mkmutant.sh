#!/bin/bash
# mkmutant.sh <name> <python-edit-script-file>: produce /verif/mutants/<name>.patch
# by applying the edit to a scratch worktree of /repo HEAD, checking that the
# module still builds and its test-suite still passes.
set -eu
export GOFLAGS=-mod=mod GOPROXY=off GOSUMDB=off GOTOOLCHAIN=local
name="$1"; edit="$2"
wt="/tmp/mut-$name"
rm -rf "$wt"; git -C /repo worktree prune
git -C /repo worktree add -q --detach "$wt" HEAD
trap 'git -C /repo worktree remove --force "$wt" >/dev/null 2>&1 || true' EXIT
(cd "$wt" && python3 "$edit")
(cd "$wt/v4" && gofmt -l . && go build ./... && go test -vet=off -count=1 -timeout 120s ./... >/tmp/mut-$name.log 2>&1) || { echo "MUTANT $name: does not build / tests fail"; tail -5 /tmp/mut-$name.log; exit 1; }
git -C "$wt" diff > "/verif/mutants/$name.patch"
echo "MUTANT $name: ok ($(wc -l < /verif/mutants/$name.patch) lines)"
