// Package lib exercises every construct the instrumenter rewrites.
package lib

import (
	"sync"
	"sync/atomic"
	"time"
)

var registry = map[string]int{}
var registryMutex sync.RWMutex
var hits atomic.Int64
var plain int64

type Box struct {
	mu    sync.Mutex
	cond  *sync.Cond
	items []int
	ch    chan int
	done  chan struct{}
	total int
}

func NewBox(capacity int) *Box {
	b := &Box{ch: make(chan int, capacity), done: make(chan struct{})}
	b.cond = sync.NewCond(&b.mu)
	return b
}

// Register uses an RWMutex with a correct double check.
func Register(name string) int {
	registryMutex.RLock()
	v, ok := registry[name]
	registryMutex.RUnlock()
	if ok {
		return v
	}
	registryMutex.Lock()
	defer registryMutex.Unlock()
	if v, ok := registry[name]; ok {
		return v
	}
	registry[name] = len(registry) + 1
	return registry[name]
}

// Pump: go statement with arguments, range over a channel, select with default.
func (b *Box) Pump(values []int, wg *sync.WaitGroup) {
	wg.Add(1)
	go b.feed(values, wg)
	wg.Add(1)
	go func(limit int) {
		defer wg.Done()
		n := 0
		for v := range b.ch {
			b.mu.Lock()
			b.items = append(b.items, v)
			b.total += v
			b.cond.Broadcast()
			b.mu.Unlock()
			n++
			hits.Add(1)
			atomic.AddInt64(&plain, 1)
			if n == limit {
				break
			}
		}
		close(b.done)
	}(len(values))
}

func (b *Box) feed(values []int, wg *sync.WaitGroup) {
	defer wg.Done()
	for _, v := range values {
		select {
		case b.ch <- v:
		default:
			time.Sleep(time.Millisecond)
			b.ch <- v
		}
	}
}

// WaitFor blocks on the condition variable until n items have arrived.
func (b *Box) WaitFor(n int) []int {
	b.mu.Lock()
	defer b.mu.Unlock()
	for len(b.items) < n {
		b.cond.Wait()
	}
	return append([]int{}, b.items...)
}

// Done uses select on two channels without default.
func (b *Box) Done(other chan struct{}) string {
	select {
	case <-b.done:
		return "done"
	case <-other:
		return "other"
	}
}

func Hits() (int64, int64) { return hits.Load(), atomic.LoadInt64(&plain) }

// Unbuffered rendezvous.
func PingPong(rounds int) int {
	ping, pong := make(chan int), make(chan int)
	go func() {
		for v := range ping {
			pong <- v + 1
		}
		close(pong)
	}()
	x := 0
	for i := 0; i < rounds; i++ {
		ping <- x
		x = <-pong
	}
	close(ping)
	_, ok := <-pong
	if ok {
		return -1
	}
	return x
}

// Racy: the captured local is written by the child and read by the parent.
func Racy() int {
	shared := 0
	done := make(chan struct{}, 1)
	go func() {
		shared = 1
		done <- struct{}{}
	}()
	r := shared // unordered with the write above
	<-done
	return r
}

// Handshake: two selects facing each other over unbuffered channels.
func Handshake(n int) (sent, got int) {
	data := make(chan int)
	stop := make(chan struct{})
	fin := make(chan int)
	go func() {
		sum := 0
		for {
			select {
			case v := <-data:
				sum += v
			case <-stop:
				fin <- sum
				return
			}
		}
	}()
	tick := make(chan struct{})
	for i := 1; i <= n; i++ {
		select {
		case data <- i:
			sent += i
		case <-tick:
			return -1, -1
		}
	}
	close(stop)
	return sent, <-fin
}

func Started() time.Duration { return time.Since(time.Now()) }
