package main

import (
	"fmt"
	"os"

	"fixture.local/fixture/lib"
	"verif.local/simrt"
)

func fail(f string, a ...any) { fmt.Printf("FIXTURE-FAIL: "+f+"\n", a...); os.Exit(1) }

func main() {
	races := 0
	orders := map[string]bool{}
	reflOrders := map[string]bool{}
	for seed := uint64(1); seed <= 300; seed++ {
		lib.SimReset()
		var items []int
		var how string
		var pp int
		var ids [3]int
		var mapOrder, reflOrder string
		res := simrt.Run(simrt.Config{Seed: seed, Strategy: -1, AccessStall: 0.1}, func() {
			var wg simrt.WaitGroup
			b := lib.NewBox(2)
			b.Pump([]int{1, 2, 3, 4, 5}, &wg)
			for i := range ids {
				i := i
				wg.Add(1)
				simrt.GoNamed("reg", func() { defer wg.Done(); ids[i] = lib.Register("x") })
			}
			items = b.WaitFor(5)
			how = b.Done(make(chan struct{}))
			wg.Wait()
			pp = lib.PingPong(3)
			if a, b := lib.Handshake(4); a != 10 || b != 10 {
				panic(fmt.Sprintf("handshake %d %d", a, b))
			}
			_ = lib.Started()
			if v := lib.IfaceSend(); v != 13 {
				panic(fmt.Sprintf("IfaceSend %d", v))
			}
			if v := lib.LabeledSelect(5); v != 9 {
				panic(fmt.Sprintf("LabeledSelect %d", v))
			}
			if v := fmt.Sprint(lib.GoIndexed()); v != "[3 12]" {
				panic("GoIndexed " + v)
			}
			if v := lib.RMWOrder(); v != 102 {
				panic(fmt.Sprintf("RMWOrder %d", v))
			}
			if a, b, c := lib.TryLocks(); !a || b || !c {
				panic(fmt.Sprintf("TryLocks %v %v %v", a, b, c))
			}
			if v := lib.Bits(); v != 5*16+9 {
				panic(fmt.Sprintf("Bits %d", v))
			}
			if v := lib.ChanParam(); v != 2 {
				panic(fmt.Sprintf("ChanParam %d", v))
			}
			if v, ok := lib.RangeAssign(); v != 5 || ok {
				panic(fmt.Sprintf("RangeAssign %d %v", v, ok))
			}
			o, ro, sum := lib.MapOrder()
			if sum != 154 {
				panic(fmt.Sprintf("MapOrder sum*10+n = %d (order %s)", sum, o))
			}
			mapOrder, reflOrder = o, ro
			if !lib.ColdGlobals() {
				panic("globals without initialiser were not reset")
			}
			if k, sum, dirty := lib.PoolAndMap(3); k != 3 || sum != 3*42+6 || dirty {
				panic(fmt.Sprintf("PoolAndMap %d %d %v", k, sum, dirty))
			}
			if v := lib.InitState(); v != "42 21 7 seven 42 7" {
				panic("InitState after cold start: " + v)
			}
		})
		if res.End != "done" {
			fail("seed %d: %s", seed, res.String())
		}
		for _, t := range res.Tasks {
			if t.Panicked {
				fail("seed %d: task %s panicked: %s\n%s", seed, t.Name, t.PanicStr, t.Stack)
			}
		}
		if fmt.Sprint(items) != "[1 2 3 4 5]" || how != "done" || pp != 3 {
			fail("seed %d: items=%v how=%s pingpong=%d", seed, items, how, pp)
		}
		if ids[0] != 1 || ids[1] != 1 || ids[2] != 1 {
			fail("seed %d: registry ids %v", seed, ids)
		}
		if a, b := lib.Hits(); a != 5 || b != 5 {
			fail("seed %d: hits %d %d", seed, a, b)
		}
		orders[mapOrder] = true
		reflOrders[reflOrder] = true
		// the same seed twice: the same iteration orders
		var twice [2]string
		for r := range twice {
			lib.SimReset()
			simrt.Run(simrt.Config{Seed: seed, Strategy: -1}, func() {
				o, ro, _ := lib.MapOrder()
				twice[r] = o + "/" + ro
			})
		}
		if twice[0] != twice[1] {
			fail("seed %d: map iteration order does not replay: %s vs %s", seed, twice[0], twice[1])
		}
		if len(res.Races) != 0 {
			fail("seed %d: unexpected race %v", seed, res.Races)
		}
		// the deliberately racy function must be flagged (captured local)
		r2 := simrt.Run(simrt.Config{Seed: seed, Strategy: -1}, func() { lib.Racy() })
		if r2.End != "done" {
			fail("racy: %s", r2.String())
		}
		if len(r2.Races) > 0 {
			races++
		}
	}
	if races < 250 {
		fail("the captured-local race was seen in only %d of 300 runs", races)
	}
	if len(orders) < 20 || len(reflOrders) < 4 {
		fail("map iteration orders are not varied by the tape: %d range orders, %d reflect orders in 300 seeds", len(orders), len(reflOrders))
	}
	fmt.Printf("FIXTURE-OK: 300 seeds, captured-local race flagged in %d\n", races)
}
