package simrt

import (
	"sort"
	"strings"
	"unsafe"
)

// vclock is a vector clock indexed by task id.
type vclock []uint32

func (v vclock) copy() vclock {
	c := make(vclock, len(v))
	copy(c, v)
	return c
}

func (v *vclock) tick(id int) {
	for len(*v) <= id {
		*v = append(*v, 0)
	}
	(*v)[id]++
}

func (v *vclock) join(o vclock) {
	for len(*v) < len(o) {
		*v = append(*v, 0)
	}
	for i, x := range o {
		if x > (*v)[i] {
			(*v)[i] = x
		}
	}
}

func (v vclock) get(id int) uint32 {
	if id < len(v) {
		return v[id]
	}
	return 0
}

type accessRec struct {
	task  int
	clock uint32
	site  string
	label string
}

type shadowVar struct {
	write     accessRec
	hasWrite  bool
	reads     []accessRec // at most one per task
	firstTask int
	multi     bool
	written   bool // some task has written it during this run
}

// Race is an unordered conflicting pair of accesses to one variable.
type Race struct {
	Sig   string `json:"sig"`  // schedule-independent: race:<var>:<funcA>/<funcB>
	Kind  string `json:"kind"` // write-write, read-write, write-read
	Var   string `json:"var"`
	SiteA string `json:"site_a"`
	SiteB string `json:"site_b"`
	TaskA int    `json:"task_a"`
	TaskB int    `json:"task_b"`
	Step  int    `json:"step"`
	// what each task was doing (harness-supplied label) at its access
	LabelA string `json:"label_a,omitempty"`
	LabelB string `json:"label_b,omitempty"`
}

// site strings have the form "<var>|<func>|<file:line>".
func siteParts(site string) (v, fn, pos string) {
	p := strings.SplitN(site, "|", 3)
	for len(p) < 3 {
		p = append(p, "")
	}
	return p[0], p[1], p[2]
}

func (s *Sim) reportRace(kind string, prev accessRec, cur accessRec) {
	v, fa, _ := siteParts(prev.site)
	_, fb, _ := siteParts(cur.site)
	fs := []string{fa, fb}
	sort.Strings(fs)
	sig := "race:" + v + ":" + fs[0] + "/" + fs[1]
	la, lb := prev.label, cur.label
	if la > lb {
		la, lb = lb, la
	}
	seenKey := sig + "@" + la + "/" + lb
	if s.raceSeen[seenKey] {
		return
	}
	s.raceSeen[seenKey] = true
	s.races = append(s.races, Race{Sig: sig, Kind: kind, Var: v, SiteA: prev.site, SiteB: cur.site, TaskA: prev.task, TaskB: cur.task, Step: s.steps, LabelA: prev.label, LabelB: cur.label})
}

func (s *Sim) access(p unsafe.Pointer, write bool, site string) {
	t := s.cur
	if t == nil {
		return
	}
	t.lastInit = s.seq
	if !write {
		t.lastRead = p
	}
	sh := s.shadow[p]
	if sh == nil {
		sh = &shadowVar{firstTask: t.id}
		s.shadow[p] = sh
	} else if sh.firstTask != t.id {
		sh.multi = true
	}
	if s.cfg.AccessPreempt > 0 && sh.multi {
		pre := s.draw(2, func() int {
			if s.rng.float() < s.cfg.AccessPreempt {
				return 1
			}
			return 0
		})
		if pre == 1 {
			s.probes["access_preemptions"]++
			t.pend = op{kind: OpAccess}
			s.yield(t)
		}
	}
	me := accessRec{task: t.id, clock: t.vc.get(t.id), site: site, label: t.label}
	if write {
		for _, u := range s.tasks {
			if u != t && !u.finished && u.pend.srcVar == p && (u.pend.kind == OpSend || u.pend.kind == OpRecv || u.pend.kind == OpSelect || u.pend.kind == OpClose) {
				switch u.pend.kind {
				case OpSend:
					s.probes["channel_replaced_while_sender_parked"]++
				case OpRecv, OpSelect:
					s.probes["channel_replaced_while_receiver_parked"]++
				default:
					s.probes["channel_replaced_before_close"]++
				}
			}
		}
		if sh.hasWrite && sh.write.task != t.id && sh.write.clock > t.vc.get(sh.write.task) {
			s.reportRace("write-write", sh.write, me)
		}
		for _, r := range sh.reads {
			if r.task != t.id && r.clock > t.vc.get(r.task) {
				s.reportRace("read-write", r, me)
			}
		}
		sh.write = me
		sh.hasWrite = true
		sh.written = true
		sh.reads = sh.reads[:0]
		s.stallAfterAccess(t, sh)
		return
	}
	if sh.hasWrite && sh.write.task != t.id && sh.write.clock > t.vc.get(sh.write.task) {
		s.reportRace("write-read", sh.write, me)
	}
	found := false
	for i := range sh.reads {
		if sh.reads[i].task == t.id {
			sh.reads[i] = me
			found = true
			break
		}
	}
	if !found {
		sh.reads = append(sh.reads, me)
	}
	s.stallAfterAccess(t, sh)
}

// stallAfterAccess: race-directed scheduling.  The access has been recorded;
// with a drawn probability the task now sleeps for a drawn number of steps, so
// that the other tasks run on without ever acquiring anything this task will
// release later - which is what lets the vector clocks see a conflicting access
// as unordered instead of incidentally ordered through a mutex.
func (s *Sim) stallAfterAccess(t *task, sh *shadowVar) {
	// only variables that somebody writes can race; read-only shared data
	// (class constants, tables) would just burn draws
	if s.cfg.AccessStall <= 0 || !sh.multi || !sh.written || len(s.tasks) < 2 {
		return
	}
	// every stall halves the probability of the next one: a run should make
	// real progress between faults instead of living in permanent recovery
	p := s.cfg.AccessStall
	if n := s.probes["access_stalls"]; n > 0 {
		if n > 12 {
			n = 12
		}
		p /= float64(uint(1) << uint(n))
	}
	k := s.draw(8, func() int {
		if s.rng.float() < p {
			return 1 + int(s.rng.next()%7)
		}
		return 0
	})
	if k == 0 {
		return
	}
	s.probes["access_stalls"]++
	t.stall = 1 << uint(k+1) // 4 .. 256 scheduling decisions
	t.pend = op{kind: OpAccess}
	s.yield(t)
}

// R records a read of *p by the running task and returns p.
func R[T any](p *T, site string) *T {
	if s := S; s != nil && !s.aborting {
		s.access(unsafe.Pointer(p), false, site)
	}
	return p
}

// W records a write of *p by the running task and returns p.
func W[T any](p *T, site string) *T {
	if s := S; s != nil && !s.aborting {
		s.access(unsafe.Pointer(p), true, site)
	}
	return p
}

// Re / We record a read / write of a slice element.  Elements are tracked like
// any other variable but are never preemption or stall points (they are far too
// many; the enclosing field accesses already are).
func Re[T any](p *T, site string) *T {
	if s := S; s != nil && !s.aborting {
		s.elementAccess(unsafe.Pointer(p), false, site)
	}
	return p
}

func We[T any](p *T, site string) *T {
	if s := S; s != nil && !s.aborting {
		s.elementAccess(unsafe.Pointer(p), true, site)
	}
	return p
}

func (s *Sim) elementAccess(p unsafe.Pointer, write bool, site string) {
	t := s.cur
	if t == nil {
		return
	}
	t.lastInit = s.seq
	sh := s.elems[p]
	if sh == nil {
		// shadow cells for elements come from a slab: there are many of them
		if len(s.slab) == 0 {
			s.slab = make([]shadowVar, 256)
		}
		sh = &s.slab[0]
		s.slab = s.slab[1:]
		sh.firstTask = t.id
		s.elems[p] = sh
	} else if sh.firstTask != t.id {
		sh.multi = true
	} else if !write && !sh.multi && sh.hasWrite == false && len(sh.reads) == 1 && sh.reads[0].task == t.id {
		// fast path: re-read by the only task that ever touched it
		sh.reads[0].clock = t.vc.get(t.id)
		return
	}
	me := accessRec{task: t.id, clock: t.vc.get(t.id), site: site, label: t.label}
	if write {
		if sh.hasWrite && sh.write.task != t.id && sh.write.clock > t.vc.get(sh.write.task) {
			s.reportRace("write-write", sh.write, me)
		}
		for _, r := range sh.reads {
			if r.task != t.id && r.clock > t.vc.get(r.task) {
				s.reportRace("read-write", r, me)
			}
		}
		sh.write = me
		sh.hasWrite = true
		sh.written = true
		sh.reads = sh.reads[:0]
		return
	}
	if sh.hasWrite && sh.write.task != t.id && sh.write.clock > t.vc.get(sh.write.task) {
		s.reportRace("write-read", sh.write, me)
	}
	for i := range sh.reads {
		if sh.reads[i].task == t.id {
			sh.reads[i] = me
			return
		}
	}
	sh.reads = append(sh.reads, me)
}

// AccessYield is the preemption point between the load and the store of a
// read-modify-write statement on a shared variable (x++, x op= y).
func AccessYield[T any](p *T) {
	s := S
	if s == nil || s.aborting || s.cfg.AccessPreempt <= 0 {
		return
	}
	sh := s.shadow[unsafe.Pointer(p)]
	if sh == nil || !sh.multi {
		return
	}
	pre := s.draw(2, func() int {
		if s.rng.float() < s.cfg.AccessPreempt {
			return 1
		}
		return 0
	})
	if pre == 1 {
		s.probes["rmw_split_preemptions"]++
		t := s.cur
		t.pend = op{kind: OpAccess}
		s.yield(t)
	}
}
