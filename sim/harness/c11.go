package main

import (
	"fmt"
	"os"
	"runtime"
	"strconv"
	"strings"

	cdcn "github.com/craterdog/go-collection-framework/v4/cdcn"
	"verif.local/simrt"
)

// parseOutcome is what one simulated ParseSource call produced.
type parseOutcome struct {
	Returned  bool
	Value     any
	PanicVal  any
	PanicStr  string
	IsRuntime bool
	Stack     string
	Res       *simrt.Result
	MainDone  bool
}

var parserFaultKinds = []string{"preemptions", "clock_jumps", "stall_steps", "access_stalls", "park_on_full_channel", "park_on_empty_channel", "park_on_held_mutex",
	"scanner_parked_on_full_token_queue", "parser_parked_on_empty_token_queue", "parser_died_with_tokens_in_flight"}

// simParse runs ParseSource(src) as the main task; the scanner goroutine is
// adopted through the rewritten go statement.  The scheduler keeps running the
// remaining tasks after main has ended, so a scanner left parked shows up as a
// deadlock at the end of the run.
func simParse(ctx *Ctx, src string, strategy int) *parseOutcome {
	return simParseAfter(ctx, nil, src, strategy)
}

// simParseAfter first parses the texts in before (whatever they do) and then src,
// all on ONE parser instance: a sentence must be accepted whatever that parser
// instance was fed earlier, failed parses included.
func simParseAfter(ctx *Ctx, before []string, src string, strategy int) *parseOutcome {
	out := &parseOutcome{}
	res := ctx.Sim(func(c *simrt.Config) {
		c.Strategy = strategy
		// generous and proportional to the input: the scanner takes a dozen
		// matcher attempts (each through a registry mutex) per token
		c.StepCap = 400000 + 4000*len(src)
	}, func() {
		defer func() {
			if !simrt.Active() {
				return // the run is being torn down (step cap or deadlock), not a panic
			}
			out.MainDone = true
			if out.Returned {
				return
			}
			r := recover()
			out.PanicVal = r
			out.PanicStr = fmt.Sprint(r)
			if _, ok := r.(runtime.Error); ok {
				out.IsRuntime = true
				buf := make([]byte, 4096)
				out.Stack = string(buf[:runtime.Stack(buf, false)])
			}
		}()
		if before == nil {
			notation := cdcn.Notation().Make()
			out.Value = notation.ParseSource(src)
			out.Returned = true
			return
		}
		parser := cdcn.Parser().Make()
		for _, b := range before {
			func() {
				defer func() { recover() }()
				parser.ParseSource(b)
			}()
		}
		out.Value = parser.ParseSource(src)
		out.Returned = true
	})
	out.Res = res
	if res.Probes["park_on_full_channel"] > 0 {
		ctx.Probe("scanner_parked_on_full_token_queue")
	}
	if res.Probes["park_on_empty_channel"] > 0 {
		ctx.Probe("parser_parked_on_empty_token_queue")
	}
	return out
}

// simParsePair parses two texts concurrently, each task with its own notation,
// in one cold-started simulation: ParseSource must be total for every caller,
// also when another caller is inside it at the same time.
func simParsePair(ctx *Ctx, srcs [2]string, strategy int) ([2]*parseOutcome, *simrt.Result) {
	outs := [2]*parseOutcome{{}, {}}
	res := ctx.Sim(func(c *simrt.Config) {
		c.Strategy = strategy
		c.StepCap = 400000 + 4000*(len(srcs[0])+len(srcs[1]))
	}, func() {
		var wg simrt.WaitGroup
		for i := 0; i < 2; i++ {
			i := i
			wg.Add(1)
			simrt.GoNamed(fmt.Sprintf("caller%d", i), func() {
				defer wg.Done()
				out := outs[i]
				defer func() {
					if !simrt.Active() {
						return
					}
					out.MainDone = true
					if out.Returned {
						return
					}
					r := recover()
					out.PanicVal = r
					out.PanicStr = fmt.Sprint(r)
					if _, ok := r.(runtime.Error); ok {
						out.IsRuntime = true
						buf := make([]byte, 4096)
						out.Stack = string(buf[:runtime.Stack(buf, false)])
					}
				}()
				out.Value = cdcn.Notation().Make().ParseSource(srcs[i])
				out.Returned = true
			})
		}
		wg.Wait()
	})
	outs[0].Res, outs[1].Res = res, res
	return outs, res
}

// ---- C11 --------------------------------------------------------------------------------------

type propC11 struct{}

var grammarChecked bool

func (propC11) ID() string { return "C11" }

// long documents: far more tokens than any internal buffer, and sources of
// several kilobytes (size-dependent behaviour must not depend on the size)
const longDocs = 24 + 16

// bigLiteralSentence / manyListsSentence / deepSentence: documents that are large
// in other dimensions than the number of items.
func specialLongSentence(i int) sentence {
	switch {
	case i < 6: // one very long string literal (as value, and as key)
		n := []int{300, 1022, 1023, 1024, 2500, 6000}[i]
		str := strings.Repeat("abcdefghij", n/10) + strings.Repeat("z", n%10)
		if i%2 == 0 {
			text := "[\"" + str + "\", 1](List)"
			return sentence{Text: text, Want: &node{Kind: "List", Kids: []*node{{Kind: "string", S: str}, {Kind: "int", I: 1}}}}
		}
		text := "[\"" + str + "\": 1](Catalog)"
		return sentence{Text: text, Want: &node{Kind: "Catalog", Kids: []*node{{Kind: "assoc", Kids: []*node{{Kind: "string", S: str}, {Kind: "int", I: 1}}}}}}
	case i < 10: // many multi-line inner lists in one flat document
		n := []int{60, 260, 300, 450}[i-6]
		want := &node{Kind: "List"}
		var b strings.Builder
		b.WriteString("[\n")
		for k := 0; k < n; k++ {
			fmt.Fprintf(&b, "    [\n        %d\n        %d\n    ](Array)\n", k, k+1)
			want.Kids = append(want.Kids, &node{Kind: "Array", Kids: []*node{{Kind: "int", I: int64(k)}, {Kind: "int", I: int64(k + 1)}}})
		}
		b.WriteString("](List)\n")
		return sentence{Text: b.String(), Want: want}
	case i < 13: // deep but valid nesting
		d := []int{20, 40, 120}[i-10]
		text := strings.Repeat("[", d) + "7" + strings.Repeat("](List)", d)
		want := &node{Kind: "int", I: 7}
		for k := 0; k < d; k++ {
			want = &node{Kind: "List", Kids: []*node{want}}
		}
		return sentence{Text: text, Want: want}
	default: // a catalog with many entries, a long float, a document with > 1000 lines
		switch i {
		case 13:
			want := &node{Kind: "Catalog"}
			var b strings.Builder
			b.WriteString("[\n")
			for k := 0; k < 300; k++ {
				fmt.Fprintf(&b, "    \"key%d\": %d\n", k, k)
				want.Kids = append(want.Kids, &node{Kind: "assoc", Kids: []*node{{Kind: "string", S: fmt.Sprintf("key%d", k)}, {Kind: "int", I: int64(k)}}})
			}
			b.WriteString("](Catalog)\n")
			return sentence{Text: b.String(), Want: want}
		case 14:
			digits := strings.Repeat("1234567890", 110)
			lit := "0." + digits + "E+10"
			f, _ := strconv.ParseFloat(lit, 64)
			return sentence{Text: "[" + lit + "](Array)", Want: &node{Kind: "Array", Kids: []*node{{Kind: "float", F: f}}}}
		default:
			want := &node{Kind: "Array"}
			var items []string
			for k := 0; k < 1100; k++ {
				items = append(items, "true")
				want.Kids = append(want.Kids, &node{Kind: "bool", B: true})
			}
			return sentence{Text: "[\n" + strings.Join(items, "\n") + "\n](Array)\n", Want: want}
		}
	}
}

func longSentence(i int) sentence {
	if i >= 24 {
		return specialLongSentence(i - 24)
	}
	n := []int{600, 800, 1200}[i%3]
	layout := (i / 3) % 4
	ctx := []string{"List", "Array"}[(i/12)%2]
	var items []string
	want := &node{Kind: ctx}
	for k := 0; k < n; k++ {
		v := int64(100000 + k)
		items = append(items, strconv.FormatInt(v, 10))
		want.Kids = append(want.Kids, &node{Kind: "int", I: v})
	}
	var text string
	switch layout {
	case 0:
		text = "[" + strings.Join(items, ",") + "](" + ctx + ")"
	case 1:
		text = "[" + strings.Join(items, ", ") + "](" + ctx + ")\n"
	case 2:
		text = "[\n" + strings.Join(items, "\n") + "\n](" + ctx + ")"
	default:
		text = "[\n    " + strings.Join(items, "\n    ") + "\n](" + ctx + ")\n"
	}
	return sentence{Text: text, Want: want}
}

func (propC11) Cases(tier string) int {
	if tier == "thorough" {
		return systematicCount() + len(mustReject)*len(contexts)*2 + longDocs + assocSystematicCount() + poolSentenceCount() + deepSetCount() + 150000
	}
	return systematicCount() + len(mustReject)*len(contexts)*2 + longDocs + assocSystematicCount() + poolSentenceCount() + deepSetCount() + 6000
}

type c11Desc struct {
	Class     string `json:"class"`
	Source    string `json:"source"`
	Want      string `json:"want,omitempty"`
	Tokens    int    `json:"tokens,omitempty"`
	Schedules int    `json:"schedules"`
}

var c11Strategies = []int{simrt.StratLowest, simrt.StratHighest, -1, simrt.StratPCT, -1, simrt.StratRandom, -1, simrt.StratSticky, -1, simrt.StratStarve, -1, -1}

func (propC11) Run(ctx *Ctx, index int) {
	if !grammarChecked {
		if err := checkGrammar(); err != nil {
			fmt.Fprintln(os.Stderr, "CANNOT-DECIDE:", err)
			os.Exit(2)
		}
		grammarChecked = true
	}
	k := 3
	if ctx.Tier == "thorough" {
		k = 12
	}
	sys := systematicCount()
	nrej := len(mustReject) * len(contexts) * 2
	switch {
	case index < sys:
		s := systematicSentence(index)
		runC11Sentence(ctx, "systematic", s, k)
	case index < sys+nrej:
		i := index - sys
		rej := mustReject[i%len(mustReject)]
		i /= len(mustReject)
		cx := contexts[i%len(contexts)]
		multi := i/len(contexts) == 1
		runC11Reject(ctx, rej.Alt, rej.Text, cx, multi, k)
	case index < sys+nrej+longDocs:
		runC11Sentence(ctx, "long-document", longSentence(index-sys-nrej), k)
	case index < sys+nrej+longDocs+assocSystematicCount():
		runC11Sentence(ctx, "associations-in-every-context", assocSentence(index-sys-nrej-longDocs), k)
	case index < sys+nrej+longDocs+assocSystematicCount()+poolSentenceCount():
		runC11Sentence(ctx, "whole-literal-pool", poolSentence(index-sys-nrej-longDocs-assocSystematicCount()), k)
	case index < sys+nrej+longDocs+assocSystematicCount()+poolSentenceCount()+deepSetCount():
		runC11Sentence(ctx, "set-of-deeply-nested-members", deepSetSentence(index-sys-nrej-longDocs-assocSystematicCount()-poolSentenceCount()), k)
	default:
		big := ctx.Prog.Choose(3) == 2
		s := genSentence(ctx.Prog, big)
		runC11Sentence(ctx, "generated", s, k)
	}
}

func tokenBucket(n int) string {
	switch {
	case n < 16:
		return "tokens_below_queue_capacity"
	case n == 16 || n == 17:
		return "tokens_at_queue_capacity"
	default:
		return "tokens_above_queue_capacity"
	}
}

func runC11Sentence(ctx *Ctx, class string, s sentence, k int) {
	ntok := len(tokenize(s.Text))
	ctx.Res.Desc = c11Desc{Class: class, Source: s.Text, Want: s.Want.String(), Tokens: ntok, Schedules: k}
	ctx.Res.ProgKey = hashString(s.Text)
	ctx.Res.NonTrivial = true
	ctx.Probe(tokenBucket(ntok))
	// Self-check of the generator: every generated text must be a sentence
	// according to the harness's own recogniser.
	if _, ok := viablePrefix(tokenize(s.Text)); !ok {
		fmt.Printf("INTERNAL: generator produced a non-sentence: %q\n", s.Text)
		panic("generator produced a non-sentence")
	}
	var first *node
	for i := 0; i < k; i++ {
		var out *parseOutcome
		sig := sentenceSig(s)
		if reuse := reuseFor(s, i); reuse != nil {
			out = simParseAfter(ctx, reuse, s.Text, c11Strategies[i%len(c11Strategies)])
			sig += ":reused-parser"
			ctx.Probe("sentence_on_reused_parser_instance")
		} else {
			out = simParse(ctx, s.Text, c11Strategies[i%len(c11Strategies)])
		}
		for _, r := range out.Res.Races {
			ctx.Violate("C11", "race", r.Sig, fmt.Sprintf("scanner/parser %s race on %s: %s vs %s while parsing %q", r.Kind, r.Var, r.SiteA, r.SiteB, s.Text))
		}
		if !out.Returned {
			if !out.MainDone {
				ctx.Violate("C11", "sentence-hangs", sig, fmt.Sprintf("ParseSource never returned for the sentence %q: %s", s.Text, out.Res.String()))
			} else {
				if s.DeepSet > 16 && strings.Contains(out.PanicStr, collatorDepthLimit) {
					// its own signature, given only to sentences the harness built
					// for this purpose: depth-limit panics anywhere else stay alarms
					sig = "set-members-equal-beyond-collator-depth-16"
				}
				ctx.Violate("C11", "sentence-rejected", sig, fmt.Sprintf("the grammatical sentence %q was rejected: %s", s.Text, firstLine(out.PanicStr)))
			}
			return
		}
		if out.Res.End != "done" {
			ctx.Violate("C11", "task-left-behind", "after-valid-sentence", fmt.Sprintf("ParseSource returned for %q but a task is still blocked: %s", s.Text, out.Res.String()))
		}
		got, err := toNode(out.Value, 0)
		if err != nil {
			ctx.Violate("C11", "wrong-meaning", sig, fmt.Sprintf("sentence %q: %v", s.Text, err))
			return
		}
		if !treeMatches(s.Want, got) {
			ctx.Violate("C11", "wrong-meaning", sig, fmt.Sprintf("sentence %q denotes %s but ParseSource returned %s", s.Text, s.Want, got))
			return
		}
		if !naturalOrderOK(got) {
			ctx.Violate("C11", "wrong-meaning", "set-order", fmt.Sprintf("sentence %q: a homogeneous Set is not in natural order: %s", s.Text, got))
		}
		if first == nil {
			first = got
		} else if !nodeEqual(first, got) && !treeMatches(first, got) {
			ctx.Violate("C11", "schedule-dependent-result", sig, fmt.Sprintf("sentence %q parsed to %s under one schedule and %s under another", s.Text, first, got))
		}
	}
}

var reuseHistories = [][]string{
	{"[1 2](List)"},                     // syntax error: the offending token was pushed back
	{"[#](List)"},                       // lexical error
	{"[1, 2](Catalog)"},                 // kind mismatch
	{"[99999999999999999999](List)"},    // unrepresentable literal
	{"[\n    1\n    2 3\n](Set)\n"},     // error deep in a multi-line sequence
	{"[1, 2, 3](List)"},                 // a successful parse
	{"[1 2](List)", "[", "[1](List) 1"}, // several failures in a row
	{"[1, 2](List)]]]]"},                // trailing garbage after a complete collection
}

// reuseFor decides whether schedule i of a sentence runs on a parser instance
// with a history (every third schedule, history chosen by the sentence text).
func reuseFor(s sentence, i int) []string {
	if i%3 != 2 {
		return nil
	}
	return reuseHistories[int(hashString(s.Text)%uint64(len(reuseHistories)))]
}

// sentenceSig is a coarse, schedule-independent description of what kind of
// sentence failed (the outer context and layout), used as violation signature.
func sentenceSig(s sentence) string {
	layout := "inline"
	if strings.HasPrefix(s.Text, "[\n") {
		layout = "multiline"
	}
	if s.Want != nil {
		if len(s.Want.Kids) == 0 {
			layout = "empty"
		}
		if len(s.Want.Kids) >= 200 || len(s.Text) > 1500 {
			layout += ":long-document"
		}
		return s.Want.Kind + ":" + layout
	}
	return layout
}

func firstLine(s string) string {
	if i := strings.IndexByte(s, '\n'); i >= 0 {
		s = s[:i]
	}
	if len(s) > 300 {
		s = s[:300]
	}
	return s
}

func runC11Reject(ctx *Ctx, alt, lit, cx string, multi bool, k int) {
	item := lit
	if isAssocContext(cx) {
		item = `"k": ` + lit
	}
	src := "[" + item + ", 1](" + cx + ")"
	if isAssocContext(cx) {
		src = "[" + item + `, "z": 1](` + cx + ")"
	}
	if multi {
		src = "[\n    " + item + "\n](" + cx + ")\n"
	}
	ctx.Res.Desc = c11Desc{Class: "must-reject:" + alt, Source: src, Schedules: k}
	ctx.Res.ProgKey = hashString(src)
	ctx.Res.NonTrivial = true
	// The literal must be one token of the stated class for the scanner's
	// published token language, otherwise this case is not what it claims.
	found := false
	for _, t := range tokenize(src) {
		if t.Text == lit && t.Kind == alt {
			found = true
		}
	}
	if !found {
		fmt.Printf("INTERNAL: must-reject literal %s is not a single %s token\n", lit, alt)
		panic("bad must-reject literal")
	}
	for i := 0; i < k; i++ {
		out := simParse(ctx, src, c11Strategies[i%len(c11Strategies)])
		if out.Returned {
			got, _ := toNode(out.Value, 0)
			ctx.Violate("C11", "literal-silently-altered", alt, fmt.Sprintf("the unrepresentable %s literal %s in %q was accepted and replaced: ParseSource returned %v", alt, lit, src, got))
			return
		}
		if !out.MainDone {
			ctx.Violate("C11", "sentence-hangs", "must-reject:"+alt, fmt.Sprintf("ParseSource never returned for %q: %s", src, out.Res.String()))
			return
		}
		if _, ok := out.PanicVal.(string); !ok {
			ctx.Violate("C11", "literal-rejected-without-diagnostic", alt, fmt.Sprintf("%q: rejected with a %T instead of a textual diagnostic: %v", src, out.PanicVal, out.PanicVal))
			return
		}
	}
}

func (propC11) Meta() PropMeta {
	return PropMeta{
		Rule: fmt.Sprintf("cases 0..%d enumerate context x layout (inline/multi-line, 1-3 items) x every literal of every Intrinsic alternative (boundary integers, 1-3 digit exponents, hexadecimal, all escape forms, astral runes) x strict/formatter rendering; the next %d cases put each unrepresentable-but-tokenizable literal (out-of-range integers, ill-formed escapes) into every context and demand a textual rejection; then 40 long documents (600-1200 integers in four layouts and two contexts, 4-11 KB; string literals and keys of 300-6000 bytes; 60-450 multi-line inner lists; valid nests of 20-120 levels; a 300-entry catalog; a 1100-digit float; 1100 lines); then association lists under every one of the seven contexts (context x inline/multi-line x rendering x {one item, two keys, a repeated key, only repeats, interleaved repeats, both empty forms}: a repeated key keeps its first position and last value whatever the context); then the whole literal pool of each Intrinsic alternative as the members of one Set and one List (distinct literals stay distinct members, including complex numbers whose squared magnitude overflows or underflows) and Sets of Maps with 2-4 keys written in different key orders (equal Maps are one member whatever Go's map iteration order); then Sets of two equal members nested 3, 15, 16, 17, 18 and 40 levels deep (beyond 16 the library's collator gives up: the recorded known finding); the remaining cases are sentences drawn from the grammar of Syntax.cdsn (nesting <= 6, <= 40 items per list, both empty forms under every context, association items under value contexts in one list out of six, mixed layouts; token counts below/at/above the scanner queue capacity 16). The harness refuses to run if the rule section of the repository's Syntax.cdsn differs from its encoding. Every sentence is parsed under k seeded schedules (quick 3, thorough 12; parser-first, scanner-first, random, PCT, sticky, starve; every third one on a parser instance that has already parsed other texts, failed parses included) as a two-task simulation; oracle: accepted, canonical tree (public API walk) equals the strconv-evaluated derivation tree, identical under every schedule, no task left behind, no scanner/parser data race. Distinct = distinct (sentence, schedule traces).", systematicCount()-1, len(mustReject)*len(contexts)*2),
		Assumptions: []string{
			"the library collator is trusted to order Set members (C07's subject); the oracle demands strictly ascending order under it and natural order for homogeneous ints/strings",
			"generated Queue literals stay within 16 items (larger ones are the constructor matrix of C05); Maps that are members of a Set have at most three entries; Go map iteration order inside the library is drawn from the tape (simrt.MapSeq / MapKeysOf)",
			"float overflow to +-Inf is accepted either way",
			"the escapes \\\" inside a rune and \\' inside a string are left undecided (the published grammar does not define ESCAPE)",
		},
		Real: realComponents, Stub: stubComponents, FaultKinds: parserFaultKinds,
	}
}

func init() { register(propC11{}) }

var _ = strconv.Itoa
