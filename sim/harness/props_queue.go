package main

import (
	"fmt"
	"strings"

	fwk "github.com/craterdog/go-collection-framework/v4"
	cdcn "github.com/craterdog/go-collection-framework/v4/cdcn"
	col "github.com/craterdog/go-collection-framework/v4/collection"
	"verif.local/simrt"
)

var queueFaultKinds = []string{
	"preemptions", "clock_jumps", "stall_steps", "access_stalls", "park_on_full_channel", "park_on_empty_channel", "park_on_held_mutex", "park_on_waitgroup",
	"close_while_receiver_parked", "close_while_sender_parked",
	"channel_replaced_while_sender_parked", "channel_replaced_while_receiver_parked", "channel_replaced_before_close",
	"removeall_while_call_in_flight", "close_while_call_in_flight",
}

var realComponents = []string{
	"all non-test code of github.com/craterdog/go-collection-framework/v4 (Module.go, agent, collection, cdcn) as found in /repo's working tree, AST-instrumented in a scratch copy: every mutex, channel, close, go statement and tracked field access executes the real operation after the scheduler admits it",
}

var stubComponents = []string{
	"sync.Mutex/RWMutex/WaitGroup/Once -> simrt models with the same methods (only one task runs at a time, so the lock is its model)",
	"the caller-side wait group passed as Synchronized -> simrt.WaitGroup",
	"crypto/rand.Reader -> seed-derived stream",
	"Go scheduler -> seeded baton scheduler (real goroutines, released one at a time)",
}

func inFlightProbes(ctx *Ctx, ev []*qEvent) {
	for _, e := range ev {
		if e.Kind != "removeall" && e.Kind != "close" {
			continue
		}
		for _, f := range ev {
			if f == e || f.Task == e.Task {
				continue
			}
			if f.Inv < e.Ret && e.Inv < f.Ret && (f.Kind == "add" || f.Kind == "remove") {
				if e.Kind == "removeall" {
					ctx.Probe("removeall_while_call_in_flight")
				} else {
					ctx.Probe("close_while_call_in_flight")
				}
				break
			}
		}
	}
}

// ---- C04 -----------------------------------------------------------------------------

type propC04 struct{}

func (propC04) ID() string { return "C04" }

func (propC04) Cases(tier string) int {
	if tier == "thorough" {
		return 8000000
	}
	return 300000
}

func (propC04) Run(ctx *Ctx, index int) {
	// the shape is drawn from the tape (not derived from the case index, which
	// would send every case of one shape to the same worker process)
	var prog *qProgram
	switch shape := ctx.Prog.Choose(16); {
	case shape == 7:
		prog = genStress(ctx.Prog, false) // many goroutines, large parameters
	default:
		prog = genC04(ctx.Prog, ctx.Tier == "thorough" && shape%4 == 3)
	}
	qr := runQueueProgram(ctx, prog)
	ctx.Res.Desc = prog
	ctx.Res.ProgKey = jsonKey(prog)
	ctx.Res.NonTrivial = len(prog.Tasks) >= 2 && qr.res.Switches >= 2
	inFlightProbes(ctx, qr.hist.events)
	checkQueueRun(ctx, qr, true)
}

func (propC04) Meta() PropMeta {
	return PropMeta{
		Rule: "each case = one generated client program (capacity 1-3; 1-3 producers adding 1-3 unique values; 0-3 consumers doing 1-3 RemoveHead calls or draining until ok=false; 0-2 observers calling GetSize/IsEmpty/AsArray/GetIterator; optional RemoveAll caller; optional closer that waits for the producers; one case in sixteen is a many-goroutine stress program instead: capacity 4-16, 3-8 producers x 2-8 values, 2-8 consumers, observers, optional RemoveAll and closer, linearizability search skipped; the thorough tier also draws larger small programs) run under one seeded schedule (strategy drawn per run: random walk, PCT depth 1-3, sticky, starve-one). Oracles: no panic, happens-before race detection, porcupine linearizability against a nondeterministic FIFO model, conservation, per-producer delivery order, back-pressure, interval-based observer bounds, ok=false only after close. Non-trivial = at least 2 tasks and at least 2 context switches; distinct = distinct (program, schedule trace).",
		Assumptions: []string{
			"AddValue overlapping or following CloseQueue and a second CloseQueue are outside the program space (invalid on their own)",
			"preemption happens at synchronisation operations and harness call boundaries, not inside data accesses",
			"RemoveAll is not assumed atomic: it is modelled as a number of head discards inside its interval, at least as many as provably present",
			"race oracle granularity is the struct field / package variable",
		},
		Real: realComponents, Stub: stubComponents, FaultKinds: queueFaultKinds,
	}
}

// ---- C05 -----------------------------------------------------------------------------

type propC05 struct{}

func (propC05) ID() string { return "C05" }

var ctorForms = []string{"class.MakeFromArray", "class.MakeFromSequence", "module.Queue([]V)", "module.Queue(Sequential)", "module.Queue(source)", "ParseSource(inline literal)", "ParseSource(multi-line literal)",
	"module.Queue(capacity, []V)", "module.Queue(capacity, Sequential)", "module.Queue(capacity, source)", "module.Queue(notation, []V)"}

const ctorMaxN = 64

func ctorCases() int { return len(ctorForms) * (ctorMaxN + 1) }

func (propC05) Cases(tier string) int {
	if tier == "thorough" {
		return ctorCases() + 10000000
	}
	return ctorCases() + 300000
}

func (propC05) Run(ctx *Ctx, index int) {
	if index < ctorCases() {
		runCtorCase(ctx, index%len(ctorForms), index/len(ctorForms))
		return
	}
	var prog *qProgram
	if shape := ctx.Prog.Choose(32); shape%16 == 7 {
		prog = genStress(ctx.Prog, shape == 7)
	} else {
		prog = genC05(ctx.Prog)
	}
	qr := runQueueProgram(ctx, prog)
	ctx.Res.Desc = prog
	ctx.Res.ProgKey = jsonKey(prog)
	ctx.Res.NonTrivial = len(prog.Tasks) >= 2 && qr.res.Switches >= 2
	inFlightProbes(ctx, qr.hist.events)
	checkQueueRun(ctx, qr, false)
}

func runCtorCase(ctx *Ctx, form, n int) {
	desc := map[string]any{"shape": "constructor", "form": ctorForms[form], "n": n}
	ctx.Res.Desc = desc
	ctx.Res.ProgKey = jsonKey(desc)
	ctx.Res.NonTrivial = true
	vals := make([]int64, n)
	var parts []string
	for i := range vals {
		vals[i] = int64(i + 1)
		parts = append(parts, fmt.Sprint(i+1))
	}
	inline := "[" + strings.Join(parts, ", ") + "](Queue)"
	if n == 0 {
		inline = "[ ](Queue)"
	}
	multi := "[\n    " + strings.Join(parts, "\n    ") + "\n](Queue)\n"
	if n == 0 {
		multi = "[ ](Queue)\n"
	}
	var got []any
	var gotCap int
	returned := false
	contentsChecked := true
	res := ctx.Sim(nil, func() {
		notation := cdcn.Notation().Make()
		toAny := func(a []int64) []any {
			var out []any
			for _, v := range a {
				out = append(out, v)
			}
			return out
		}
		switch form {
		case 0:
			q := col.Queue[int64](notation).MakeFromArray(vals)
			got, gotCap = toAny(q.AsArray()), int(q.GetCapacity())
		case 1:
			seq := col.List[int64](notation).MakeFromArray(vals)
			q := col.Queue[int64](notation).MakeFromSequence(seq)
			got, gotCap = toAny(q.AsArray()), int(q.GetCapacity())
		case 2:
			q := fwk.Queue[int64](vals)
			got, gotCap = toAny(q.AsArray()), int(q.GetCapacity())
		case 3:
			seq := col.List[int64](notation).MakeFromArray(vals)
			q := fwk.Queue[int64](seq)
			got, gotCap = toAny(q.AsArray()), int(q.GetCapacity())
		case 4:
			q := fwk.Queue[int64](inline)
			got, gotCap = toAny(q.AsArray()), int(q.GetCapacity())
		case 5:
			q := notation.ParseSource(inline).(col.QueueLike[any])
			got, gotCap = q.AsArray(), int(q.GetCapacity())
		case 6:
			q := notation.ParseSource(multi).(col.QueueLike[any])
			got, gotCap = q.AsArray(), int(q.GetCapacity())
		case 7, 8, 9:
			// an explicit capacity next to the initial values: only termination is
			// demanded here (which of the two arguments wins is C20's subject)
			contentsChecked = false
			capacity := 1 + n%4
			var q col.QueueLike[int64]
			switch form {
			case 7:
				q = fwk.Queue[int64](capacity, vals)
			case 8:
				q = fwk.Queue[int64](uint(capacity), col.List[int64](notation).MakeFromArray(vals))
			default:
				q = fwk.Queue[int64](capacity, inline)
			}
			got, gotCap = toAny(q.AsArray()), int(q.GetCapacity())
		case 10:
			q := fwk.Queue[int64](notation, vals)
			got, gotCap = toAny(q.AsArray()), int(q.GetCapacity())
		}
		returned = true
	})
	sig := ctorForms[form]
	for _, t := range res.Tasks {
		if t.Panicked {
			ctx.Violate("C05", "constructor-panics", sig, fmt.Sprintf("constructing a queue from %d values via %s panicked: %s", n, sig, t.PanicStr))
			return
		}
	}
	if !returned {
		ctx.Violate("C05", "constructor-blocks", sig, fmt.Sprintf("constructing a queue from %d initial values via %s never returns: %s", n, sig, res.String()))
		return
	}
	if res.End != "done" {
		ctx.Violate("C05", "constructor-leaks-task", sig, fmt.Sprintf("constructor returned but a task is left blocked (n=%d): %s", n, res.String()))
	}
	if !contentsChecked {
		return
	}
	if len(got) != n {
		ctx.Violate("C05", "constructor-wrong-contents", sig, fmt.Sprintf("queue built from %d values via %s holds %d", n, sig, len(got)))
		return
	}
	for i, g := range got {
		if g != any(int64(i+1)) {
			ctx.Violate("C05", "constructor-wrong-contents", sig, fmt.Sprintf("queue built via %s: element %d is %v (%T)", sig, i, g, g))
			return
		}
	}
	if gotCap < n {
		ctx.Violate("C05", "constructor-wrong-contents", sig+":capacity", fmt.Sprintf("queue built from %d values reports capacity %d", n, gotCap))
	}
}

func (propC05) Meta() PropMeta {
	return PropMeta{
		Rule: fmt.Sprintf("cases 0..%d enumerate the constructor matrix completely (11 constructor forms x N=0..%d initial values, one task each: must return, hold exactly the input, leave nothing blocked); the remaining cases are generated programs: well-formed pipelines (1-3 producers x 1-4 values, closer after the producers, 1-3 consumers draining until ok=false, optional RemoveAll caller and observer; must terminate with every task finished and every value consumed or discardable) and open programs (no closer or fixed-count consumers; at quiescence every parked call must be justified by the queue's own frozen GetSize/capacity/closed state); one case in sixteen is a many-goroutine stress program or pipeline (capacity 4-16, 3-8 producers x 2-8 values, 2-8 consumers). One seeded schedule per case, strategy drawn per run. Non-trivial = constructor case, or >=2 tasks and >=2 context switches; distinct = distinct (program, schedule trace).", ctorCases()-1, ctorMaxN),
		Assumptions: []string{
			"liveness is stated as: the run reaches a state with no enabled task within the step cap, and every still-parked call is justified by the queue state",
			"AddValue overlapping CloseQueue is outside the program space",
			"GetSize/AsArray on a quiescent queue are exact (that is C04's observer oracle, checked there)",
		},
		Real: realComponents, Stub: stubComponents, FaultKinds: queueFaultKinds,
	}
}

func init() {
	register(propC04{})
	register(propC05{})
	_ = simrt.Active
}
