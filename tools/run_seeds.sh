#!/bin/bash
# run_seeds.sh [tier]: sensitivity / specificity regression.  Every seeded defect
# (seeded/*/patch.diff, mutants/prefix-*.patch = the genuine defects before their
# fix, mutants/q[35].patch) must be reported by the check of its property; every
# behaviour-preserving change (mutants/q4, q6, eq-*) must NOT raise an alarm.
# Patches are applied to scratch copies of /repo, never to /repo.
tier="${1:-quick}"
cd /verif
pass=0; fail=0
row() { printf "%-58s %-4s %-9s %s\n" "$1" "$2" "$3" "$4"; }
run() { # patch id expect(detect|quiet)
  out=$(MUT_LINES=2 tools/run_mutant.sh "$1" "$2" "$tier" 2>&1); rc=$(echo "$out" | grep -o "exit=[0-9]*" | tail -1 | cut -d= -f2)
  what=$(echo "$out" | grep "^violation:" | head -1 | cut -c12-90)
  if [ "$3" = detect ]; then [ "$rc" = 1 ] && { res=DETECTED; pass=$((pass+1)); } || { res="MISSED(rc=$rc)"; fail=$((fail+1)); }
  else [ "$rc" = 0 ] && { res=QUIET; pass=$((pass+1)); } || { res="ALARM(rc=$rc)"; fail=$((fail+1)); }; fi
  row "$1" "$2" "$res" "$what"
}
for d in seeded/C*/; do id=$(basename "$d" | cut -d- -f1); run "${d}patch.diff" "$id" detect; done
run mutants/prefix-Queue-RemoveAll-drains-the-queue-instead.patch C04 detect
run mutants/prefix-Queue-RemoveAll-drains-the-queue-instead.patch C05 detect
run mutants/prefix-queues-built-from-initial-values-get-a-c.patch C05 detect
run mutants/prefix-parseItems-returns-the-token-at-which-it.patch C12 detect
run mutants/prefix-literal-errors-discarded.patch C11 detect
run mutants/prefix-Catalog-Map-type-assertion.patch C12 detect
run mutants/prefix-a-collator-no-longer-keeps-traversal-sta.patch C19 detect
run mutants/prefix-a-rune-literal-with-a-x-escape-above-0x7.patch C11 detect
run mutants/prefix-default-sorters-no-longer-share-one-coll.patch C19 quiet
run mutants/prefix-the-scanner-goroutine-always-terminates-.patch C12 detect
run mutants/prefix-a-notation-no-longer-shares-one-formatte.patch C19 detect
run mutants/q3.patch C04 detect
run mutants/q5.patch C06 detect
run mutants/q4.patch C06 quiet
run mutants/q6.patch C06 quiet
run mutants/eq-atomic-counters.patch C04 quiet
run mutants/eq-registry-rwmutex-doublecheck.patch C19 quiet
run mutants/eq-queue-lock-discipline.patch C04 quiet
run mutants/eq-queue-lock-discipline.patch C05 quiet
run mutants/eq-queue-lock-discipline.patch C06 quiet
run mutants/eq-parser-bigger-buffers.patch C11 quiet
run mutants/eq-parser-bigger-buffers.patch C12 quiet
# wave 4: independently written CORRECT refactorings (different primitives and control flow)
for i in 1 2 3; do run mutants/eq-w4R2-$i.patch C06 quiet; done
for i in 1 2 3; do run mutants/eq-w4R1-$i.patch C04 quiet; run mutants/eq-w4R1-$i.patch C05 quiet; done
for i in 1 2 3; do run mutants/eq-w4R3-$i.patch C11 quiet; run mutants/eq-w4R3-$i.patch C12 quiet; done
for i in 1 2 3; do run mutants/eq-w4R4-$i.patch C19 quiet; done
# wave 7: more correct refactorings (atomics-heavy queues; collections and agents)
for i in 1 2 3; do run mutants/eq-w7R5-$i.patch C04 quiet; run mutants/eq-w7R5-$i.patch C05 quiet; done
for i in 1 2 3; do run mutants/eq-w7R6-$i.patch C19 quiet; done
# wave 8: correct refactorings using the constructs the instrumenter learnt after its review
run mutants/eq-w8R7-1.patch C11 quiet; run mutants/eq-w8R7-1.patch C12 quiet
run mutants/eq-w8R7-2.patch C06 quiet
run mutants/eq-w8R7-3.patch C04 quiet; run mutants/eq-w8R7-3.patch C05 quiet; run mutants/eq-w8R7-3.patch C06 quiet
run mutants/eq-w8R8-1.patch C19 quiet; run mutants/eq-w8R8-1.patch C04 quiet
run mutants/eq-w8R8-2.patch C19 quiet
run mutants/eq-w8R8-3.patch C11 quiet; run mutants/eq-w8R8-3.patch C12 quiet; run mutants/eq-w8R8-3.patch C19 quiet
# the two correct variants written by the reviewing sub-agent (former false alarms)
run mutants/eq-review-fork-unbuffered-join.patch C06 quiet
run mutants/eq-review-removehead-busy-wait.patch C05 quiet
run mutants/eq-review-removehead-busy-wait.patch C04 quiet
echo "seeds: pass=$pass fail=$fail"
[ $fail = 0 ]
