package simrt

import (
	"fmt"
	"iter"
	"reflect"
	"sort"
)

// Models of sync.Pool, sync.Map, sync.OnceFunc/OnceValue/OnceValues, and the
// generic zeroing helper of the generated cold start.

// ResetZero puts the zero value back into a package-level variable (generated
// SimReset; the type need not be nameable in the generated file).
func ResetZero[T any](p *T) {
	var z T
	*p = z
}

// ---- sync.Pool -----------------------------------------------------------------

// Pool replaces sync.Pool.  What a pool hands out is the scheduler's decision:
// Get returns one of the pooled items or, like a pool that was emptied by the
// collector, a new one; which of the two is drawn from the tape.  A Put
// happens before the Get that returns the item.  Pooled items do not survive
// the simulated run (a pool may drop anything at any time), so runs stay
// independent of each other.
type Pool struct {
	New func() any

	gen   uint64
	ord   int
	items []poolItem
}

type poolItem struct {
	v  any
	vc vclock
}

func (p *Pool) sync(s *Sim) {
	if p.gen != s.gen {
		p.gen, p.ord, p.items = s.gen, s.ord(), nil
	}
}

func (p *Pool) Get() any {
	s := S
	if s == nil || s.aborting {
		// outside a simulation (initialisers, post-mortem calls): never reuse
		if p.New != nil {
			return p.New()
		}
		return nil
	}
	p.sync(s)
	t := s.cur
	t.pend = op{kind: OpYield, obj: p.ord}
	s.yield(t)
	if n := len(p.items); n > 0 {
		// n+1 outcomes: one of the pooled items (most recent first), or none
		k := s.draw(n+1, func() int {
			r := int(s.rng.next() % uint64(4*n+1))
			if r >= 4*n {
				return n
			}
			return r % n
		})
		if k < n {
			i := n - 1 - k
			it := p.items[i]
			p.items = append(p.items[:i], p.items[i+1:]...)
			t.vc.join(it.vc)
			t.vc.tick(t.id)
			return it.v
		}
	}
	if p.New != nil {
		return p.New()
	}
	return nil
}

func (p *Pool) Put(x any) {
	s := S
	if s == nil || s.aborting || x == nil {
		return
	}
	p.sync(s)
	t := s.cur
	t.pend = op{kind: OpYield, obj: p.ord}
	s.yield(t)
	p.items = append(p.items, poolItem{v: x, vc: t.vc.copy()})
	t.vc.tick(t.id)
}

// ---- sync.Map ------------------------------------------------------------------

// Map replaces sync.Map: a plain map (one task runs at a time) whose every
// operation is a scheduling point.  A write to a key happens before a read
// that observes it (one clock per key); Range observes every key.  Iteration
// is in insertion order, so a run replays.  The contents are ordinary state:
// they are reset by the generated cold start like any other variable.
type Map struct {
	gen  uint64
	ord  int
	m    map[any]*mapEntry
	keys []any // insertion order (deleted keys are removed)
	vcs  map[any]vclock
}

type mapEntry struct{ v any }

func (m *Map) point(key any, write, read bool) {
	s := S
	if s == nil || s.aborting {
		return
	}
	if m.gen != s.gen {
		m.gen, m.ord, m.vcs = s.gen, s.ord(), nil
	}
	t := s.cur
	t.pend = op{kind: OpYield, obj: m.ord}
	s.yield(t)
	if m.vcs == nil {
		m.vcs = map[any]vclock{}
	}
	if read {
		t.vc.join(m.vcs[key])
	}
	if write {
		vc := m.vcs[key]
		vc.join(t.vc)
		m.vcs[key] = vc
	}
	t.vc.tick(t.id)
}

func (m *Map) put(key, v any) {
	if m.m == nil {
		m.m = map[any]*mapEntry{}
	}
	if e, ok := m.m[key]; ok {
		e.v = v
		return
	}
	m.m[key] = &mapEntry{v}
	m.keys = append(m.keys, key)
}

func (m *Map) del(key any) {
	if _, ok := m.m[key]; !ok {
		return
	}
	delete(m.m, key)
	for i, k := range m.keys {
		if k == key {
			m.keys = append(m.keys[:i:i], m.keys[i+1:]...)
			break
		}
	}
}

func (m *Map) Load(key any) (any, bool) {
	m.point(key, false, true)
	if e, ok := m.m[key]; ok {
		return e.v, true
	}
	return nil, false
}

func (m *Map) Store(key, value any) { m.point(key, true, false); m.put(key, value) }

func (m *Map) LoadOrStore(key, value any) (any, bool) {
	m.point(key, true, true)
	if e, ok := m.m[key]; ok {
		return e.v, true
	}
	m.put(key, value)
	return value, false
}

func (m *Map) LoadAndDelete(key any) (any, bool) {
	m.point(key, true, true)
	if e, ok := m.m[key]; ok {
		m.del(key)
		return e.v, true
	}
	return nil, false
}

func (m *Map) Delete(key any) { m.point(key, true, false); m.del(key) }

func (m *Map) Swap(key, value any) (any, bool) {
	m.point(key, true, true)
	if e, ok := m.m[key]; ok {
		old := e.v
		e.v = value
		return old, true
	}
	m.put(key, value)
	return nil, false
}

func (m *Map) CompareAndSwap(key, old, new any) bool {
	m.point(key, true, true)
	if e, ok := m.m[key]; ok && e.v == old {
		e.v = new
		return true
	}
	return false
}

func (m *Map) CompareAndDelete(key, old any) bool {
	m.point(key, true, true)
	if e, ok := m.m[key]; ok && e.v == old {
		m.del(key)
		return true
	}
	return false
}

func (m *Map) Clear() {
	for _, k := range append([]any(nil), m.keys...) {
		m.Delete(k)
	}
}

// Range calls f for each key present when it gets there (like sync.Map, not a
// snapshot: f may run for a key stored during the iteration or not).
func (m *Map) Range(f func(key, value any) bool) {
	for _, k := range append([]any(nil), m.keys...) {
		m.point(k, false, true)
		e, ok := m.m[k]
		if !ok {
			continue
		}
		if !f(k, e.v) {
			return
		}
	}
}

// ---- sync.OnceFunc / OnceValue / OnceValues ---------------------------------------

type onceState struct {
	o     Once
	valid bool
	p     any
}

func (st *onceState) run(f func()) {
	st.o.Do(func() {
		defer func() {
			st.p = recover()
			if !st.valid {
				panic(st.p)
			}
		}()
		f()
		st.valid = true
	})
	if !st.valid {
		panic(st.p)
	}
}

func OnceFunc(f func()) func() {
	st := &onceState{}
	return func() { st.run(f) }
}

func OnceValue[T any](f func() T) func() T {
	st := &onceState{}
	var r T
	return func() T { st.run(func() { r = f() }); return r }
}

func OnceValues[T1, T2 any](f func() (T1, T2)) func() (T1, T2) {
	st := &onceState{}
	var r1 T1
	var r2 T2
	return func() (T1, T2) { st.run(func() { r1, r2 = f() }); return r1, r2 }
}

// ---- map iteration order ---------------------------------------------------------

// Go randomises the iteration order of maps per iteration; left alone it would
// be a source of nondeterminism the simulator does not own (a run would not
// replay).  Instrumented code ranges over MapSeq(m) instead of m, and reflective
// code asks MapKeysOf(v) instead of v.MapKeys(): the order is a permutation of
// a canonical order, chosen by one draw from the tape.

func mapOrderSeed() uint64 {
	s := S
	if s == nil || s.aborting {
		return 0
	}
	return uint64(s.draw(1<<16, func() int { return int(s.rng.next() % (1 << 16)) }))
}

func permute[T any](keys []T, canon func(T) string, seed uint64) {
	sort.SliceStable(keys, func(i, j int) bool { return canon(keys[i]) < canon(keys[j]) })
	if seed == 0 {
		return
	}
	x := seed
	for i := len(keys) - 1; i > 0; i-- {
		x += 0x9e3779b97f4a7c15
		z := x
		z = (z ^ (z >> 30)) * 0xbf58476d1ce4e5b9
		z = (z ^ (z >> 27)) * 0x94d049bb133111eb
		z ^= z >> 31
		j := int(z % uint64(i+1))
		keys[i], keys[j] = keys[j], keys[i]
	}
}

// MapSeq iterates over m like `range m` does (entries removed before they are
// reached are not produced; entries added meanwhile are not produced either,
// which the language allows) in an order drawn from the tape.
func MapSeq[M ~map[K]V, K comparable, V any](m M) iter.Seq2[K, V] {
	return func(yield func(K, V) bool) {
		if len(m) == 0 {
			return
		}
		keys := make([]K, 0, len(m))
		for k := range m {
			keys = append(keys, k)
		}
		if len(keys) > 1 {
			permute(keys, func(k K) string { return fmt.Sprintf("%T:%#v", k, k) }, mapOrderSeed())
		}
		for _, k := range keys {
			v, ok := m[k]
			if !ok {
				if k == k {
					continue // removed meanwhile
				}
				continue // a NaN key: cannot be looked up again; not produced (documented limit)
			}
			if !yield(k, v) {
				return
			}
		}
	}
}

// MapKeysOf is reflect.Value.MapKeys in an order drawn from the tape.
func MapKeysOf(v reflect.Value) []reflect.Value {
	keys := v.MapKeys()
	if len(keys) > 1 {
		permute(keys, func(k reflect.Value) string { return fmt.Sprintf("%s:%#v", k.Type(), k.Interface()) }, mapOrderSeed())
	}
	return keys
}
