module fixture.local/driver

go 1.22

require (
	fixture.local/fixture v0.0.0
	verif.local/simrt v0.0.0
)

replace fixture.local/fixture => ../fixture

replace verif.local/simrt => ../simrt
