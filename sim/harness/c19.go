package main

import (
	"fmt"
	"sort"
	"strings"

	fwk "github.com/craterdog/go-collection-framework/v4"
	agent "github.com/craterdog/go-collection-framework/v4/agent"
	cdcn "github.com/craterdog/go-collection-framework/v4/cdcn"
	col "github.com/craterdog/go-collection-framework/v4/collection"
	"verif.local/simrt"
)

// ---- program ---------------------------------------------------------------------------------

type c19Op struct {
	Code int `json:"op"`
	A    int `json:"a"`
	B    int `json:"b"`
}

type c19Task struct {
	Type string  `json:"type"` // int string slice any
	Ops  []c19Op `json:"ops"`
}

type c19Prog struct {
	Tasks   []c19Task `json:"tasks"`
	Preempt int       `json:"access_preempt_permille"`
}

var c19OpNames = []string{
	"build-list", "build-set", "build-catalog", "list-append", "list-insert", "list-remove", "list-set", "set-add-remove",
	"list-search", "set-search", "list-sort", "sorter-sort", "list-reverse", "list-shuffle", "collate", "list-String",
	"notation-FormatValue", "module-FormatValue", "set-catalog-String", "parse", "iterate", "stack-queue", "catalog-sort", "class-accessors",
	"sorter-custom", "array-sort", "many-type-accessors", "format-deep",
}

var c19Families = map[string][]int{
	"build":   {0, 1, 2},
	"mutate":  {3, 4, 5, 6, 7},
	"search":  {8, 9},
	"sort":    {10, 11, 12, 13, 22, 24, 25},
	"collate": {14},
	"format":  {15, 16, 17, 18, 27},
	"parse":   {19},
	"iterate": {20, 21},
	"class":   {23, 26},
}

var c19FamilyNames = []string{"build", "mutate", "search", "sort", "collate", "format", "parse", "iterate", "class"}

var c19Types = []string{"int", "string", "slice", "any"}

func genC19(t *simrt.Tape, maxTasks int) *c19Prog {
	p := &c19Prog{}
	nt := t.Range(2, maxTasks)
	// Swarm: a run concentrates on one or two families so that pairs of
	// families meet often; the element type is shared by most tasks so that
	// they meet in the same class.
	famA := c19FamilyNames[t.Choose(len(c19FamilyNames))]
	famB := c19FamilyNames[t.Choose(len(c19FamilyNames))]
	baseType := c19Types[t.Choose(len(c19Types))]
	for i := 0; i < nt; i++ {
		task := c19Task{Type: baseType}
		if t.Choose(4) == 3 {
			task.Type = c19Types[t.Choose(len(c19Types))]
		}
		fam := famA
		if i%2 == 1 {
			fam = famB
		}
		n := t.Range(1, 5)
		// every script starts by building its own list so later ops have data
		task.Ops = append(task.Ops, c19Op{Code: 0, A: t.Range(0, 5), B: t.Choose(7)})
		for k := 0; k < n; k++ {
			f := fam
			if t.Choose(4) == 3 {
				f = c19FamilyNames[t.Choose(len(c19FamilyNames))]
			}
			codes := c19Families[f]
			task.Ops = append(task.Ops, c19Op{Code: codes[t.Choose(len(codes))], A: t.Choose(6), B: t.Choose(7)})
		}
		p.Tasks = append(p.Tasks, task)
	}
	p.Preempt = []int{0, 20, 100, 300}[t.Choose(4)]
	return p
}

// ---- execution -----------------------------------------------------------------------------------

type c19Classes struct {
	seen map[string][]any
}

func (c *c19Classes) note(key string, class any) {
	c.seen[key] = append(c.seen[key], class)
}

var c19Sources = []string{
	"[1, 2, 3](List)",
	"[\n    \"a\": 1\n    \"b\": [true](Set)\n](Catalog)\n",
	"[ ](Queue)",
	"['x', 'y'](Stack)",
	"[0x10, 1.5, (1.0+2.0i), nil](Array)",
	"[3, 1, 2](Set)",
	"[1, 2](",
}

// c19Run executes one task's script and returns its result log.
func c19Run[T any](typ string, mk func(int) T, ops []c19Op, classes *c19Classes) (log []string) {
	notation := cdcn.Notation().Make()
	var list col.ListLike[T]
	var set col.SetLike[T]
	var catalog col.CatalogLike[string, T]
	emit := func(name string, v any) { log = append(log, name+"="+fmt.Sprintf("%v", v)) }
	vals := func(n, a int) []T {
		if n == 5 {
			n = 40 // sizes beyond small-input fast paths
			if a%3 == 2 {
				n = 200
			}
		}
		out := make([]T, 0, n)
		for i := 0; i < n; i++ {
			out = append(out, mk((a*7+i*5)%11))
		}
		return out
	}
	ensureList := func() {
		if list == nil {
			list = col.List[T](notation).MakeFromArray(vals(3, 1))
		}
	}
	for _, op := range ops {
		func() {
			name := c19OpNames[op.Code]
			simrt.SetLabel(name)
			defer func() {
				if r := recover(); r != nil {
					emit(name, "panic: "+firstLine(fmt.Sprint(r)))
				}
			}()
			switch op.Code {
			case 0:
				class := col.List[T](notation)
				classes.note("List["+typ+"]", class)
				list = class.MakeFromArray(vals(op.A, op.B))
				emit(name, list.AsArray())
			case 1:
				class := col.Set[T](notation)
				classes.note("Set["+typ+"]", class)
				set = class.MakeFromArray(vals(op.A, op.B))
				emit(name, set.AsArray())
			case 2:
				class := col.Catalog[string, T](notation)
				classes.note("Catalog[string,"+typ+"]", class)
				catalog = class.Make()
				for i, v := range vals(op.A, op.B) {
					catalog.SetValue(fmt.Sprintf("k%d", (i*3+op.B)%5), v)
				}
				emit(name, catalog.GetKeys().AsArray())
				var vs []T
				for _, a := range catalog.AsArray() {
					vs = append(vs, a.GetValue())
				}
				emit(name+".values", vs)
			case 3:
				ensureList()
				list.AppendValue(mk(op.A + op.B))
				emit(name, list.AsArray())
			case 4:
				ensureList()
				list.InsertValue(uint(op.A%(list.GetSize()+1)), mk(op.B))
				emit(name, list.AsArray())
			case 5:
				ensureList()
				if list.GetSize() > 0 {
					emit(name, list.RemoveValue(1+op.A%list.GetSize()))
				}
				emit(name+".rest", list.AsArray())
			case 6:
				ensureList()
				if list.GetSize() > 0 {
					list.SetValue(1+op.A%list.GetSize(), mk(op.B))
				}
				emit(name, list.AsArray())
			case 7:
				if set == nil {
					set = col.Set[T](notation).MakeFromArray(vals(3, 2))
				}
				set.AddValue(mk(op.A))
				set.RemoveValue(mk(op.B))
				emit(name, set.AsArray())
			case 8:
				ensureList()
				emit(name, []any{list.GetIndex(mk(op.A)), list.ContainsValue(mk(op.B))})
			case 9:
				if set == nil {
					set = col.Set[T](notation).MakeFromArray(vals(4, 3))
				}
				emit(name, []any{set.GetIndex(mk(op.A)), set.ContainsValue(mk(op.B))})
			case 10:
				ensureList()
				list.SortValues()
				emit(name, list.AsArray())
			case 11:
				ensureList()
				class := agent.Sorter[T]()
				classes.note("Sorter["+typ+"]", class)
				s := class.Make()
				arr := list.AsArray()
				s.SortValues(arr)
				emit(name, arr)
			case 12:
				ensureList()
				list.ReverseValues()
				emit(name, list.AsArray())
			case 13:
				ensureList()
				list.ShuffleValues()
				// only "is a permutation" is compared with the serial run: the
				// draw itself may legitimately differ if the entropy source is
				// not the seam this harness controls
				arr := list.AsArray()
				strs := make([]string, len(arr))
				for i, v := range arr {
					strs[i] = fmt.Sprintf("%v", v)
				}
				sort.Strings(strs)
				emit(name, strs)
				// later operations must not depend on the drawn order either
				list.SortValues()
			case 14:
				class := agent.Collator[T]()
				classes.note("Collator["+typ+"]", class)
				c := class.Make()
				a, b := mk(op.A), mk(op.B)
				emit(name, []any{c.CompareValues(a, b), c.RankValues(a, b), c.RankValues(b, a), c.CompareValues(a, a)})
			case 15:
				ensureList()
				emit(name, any(list).(fmt.Stringer).String())
			case 16:
				ensureList()
				emit(name, notation.FormatValue(list))
			case 17:
				ensureList()
				emit(name, fwk.FormatValue(list))
			case 18:
				if set == nil {
					set = col.Set[T](notation).MakeFromArray(vals(3, 4))
				}
				emit(name, any(set).(fmt.Stringer).String())
				if catalog != nil {
					emit(name+".catalog", any(catalog).(fmt.Stringer).String())
				}
			case 19:
				src := c19Sources[(op.A+op.B)%len(c19Sources)]
				v := notation.ParseSource(src)
				n, err := toNode(v, 0)
				if err != nil {
					emit(name, err.Error())
				} else {
					emit(name, n.String())
				}
			case 20:
				ensureList()
				it := list.GetIterator()
				var walk []T
				for it.HasNext() {
					walk = append(walk, it.GetNext())
				}
				it.ToSlot(op.A - 3)
				var back []T
				for it.HasPrevious() {
					back = append(back, it.GetPrevious())
				}
				emit(name, []any{walk, back, it.GetSlot()})
			case 21:
				st := col.Stack[T](notation).Make()
				q := col.Queue[T](notation).MakeWithCapacity(8)
				for _, v := range vals(1+op.A%4, op.B) {
					st.AddValue(v)
					q.AddValue(v)
				}
				top := st.RemoveTop()
				head, ok := q.RemoveHead()
				emit(name, []any{top, head, ok, st.AsArray(), q.AsArray()})
			case 22:
				if catalog == nil {
					catalog = col.Catalog[string, T](notation).Make()
					for i, v := range vals(3, op.B) {
						catalog.SetValue(fmt.Sprintf("k%d", (i*2+op.A)%4), v)
					}
				}
				catalog.SortValues()
				emit(name, catalog.GetKeys().AsArray())
				catalog.ReverseValues()
				emit(name+".rev", catalog.GetKeys().AsArray())
			case 26:
				// first use of the Array / List registries for many element types
				// at once (each goroutine asks for all of them)
				classes.note("List[int8]", col.List[int8](notation))
				classes.note("List[int16]", col.List[int16](notation))
				classes.note("List[uint]", col.List[uint](notation))
				classes.note("List[float64]", col.List[float64](notation))
				classes.note("List[bool]", col.List[bool](notation))
				classes.note("List[rune]", col.List[rune](notation))
				classes.note("List[uint64]", col.List[uint64](notation))
				classes.note("Array[int8]", col.Array[int8](notation))
				classes.note("Array[int16]", col.Array[int16](notation))
				classes.note("Array[uint]", col.Array[uint](notation))
				classes.note("Array[float64]", col.Array[float64](notation))
				classes.note("Array[bool]", col.Array[bool](notation))
				classes.note("Array[rune]", col.Array[rune](notation))
				classes.note("Array[uint64]", col.Array[uint64](notation))
				classes.note("Set[float64]", col.Set[float64](notation))
				classes.note("Stack[bool]", col.Stack[bool](notation))
				emit(name, "ok")
			case 27:
				// format a value nested several levels deep (own notation, own data)
				var v any = mk(op.A)
				for d := 0; d < 3+op.B; d++ {
					v = col.List[any](notation).MakeFromArray([]any{v, d})
				}
				emit(name, notation.FormatValue(v))
			case 23:
				// first-use races on the class registries
				classes.note("List["+typ+"]", col.List[T](notation))
				classes.note("Set["+typ+"]", col.Set[T](notation))
				classes.note("Stack["+typ+"]", col.Stack[T](notation))
				classes.note("Queue["+typ+"]", col.Queue[T](notation))
				classes.note("Array["+typ+"]", col.Array[T](notation))
				classes.note("Map[string,"+typ+"]", col.Map[string, T](notation))
				classes.note("Catalog[string,"+typ+"]", col.Catalog[string, T](notation))
				classes.note("Association[string,"+typ+"]", col.Association[string, T](notation))
				classes.note("Collator["+typ+"]", agent.Collator[T]())
				classes.note("Sorter["+typ+"]", agent.Sorter[T]())
				classes.note("Iterator["+typ+"]", agent.Iterator[T]())
				emit(name, "ok")
			case 24:
				ensureList()
				rank := agent.Collator[T]().Make().RankValues
				s := agent.Sorter[T]().MakeWithRanker(func(a, b T) agent.Rank { return rank(b, a) })
				arr := list.AsArray()
				s.SortValues(arr)
				emit(name, arr)
			case 25:
				arr := col.Array[T](notation).MakeFromArray(vals(2+op.A%4, op.B))
				arr.SortValues()
				emit(name, arr.AsArray())
				emit(name+".String", any(arr).(fmt.Stringer).String())
			}
		}()
	}
	return log
}

func c19Dispatch(task c19Task, classes *c19Classes) []string {
	switch task.Type {
	case "int":
		return c19Run[int]("int", func(i int) int { return i*3 - 7 }, task.Ops, classes)
	case "string":
		return c19Run[string]("string", func(i int) string { return fmt.Sprintf("s%c%d", 'a'+rune(i%5), i) }, task.Ops, classes)
	case "slice":
		return c19Run[[]int]("[]int", func(i int) []int {
			out := make([]int, i%4)
			for k := range out {
				out[k] = (i + k*2) % 5
			}
			return out
		}, task.Ops, classes)
	default:
		return c19Run[any]("any", func(i int) any {
			switch i % 4 {
			case 0:
				return i
			case 1:
				return fmt.Sprintf("v%d", i)
			case 2:
				return []int{i, i + 1}
			default:
				return float64(i) / 2
			}
		}, task.Ops, classes)
	}
}

type propC19 struct{}

func (propC19) ID() string { return "C19" }

func (propC19) Cases(tier string) int {
	if tier == "thorough" {
		return 1000000
	}
	return 24000
}

func (propC19) Run(ctx *Ctx, index int) {
	if ctx.Prog.Choose(5) >= 3 {
		dp := genC19Derived(ctx.Prog)
		runC19Derived(ctx, dp)
		ctx.Res.Desc = dp
		ctx.Res.ProgKey = jsonKey(dp)
		return
	}
	maxTasks := 8
	if ctx.Tier == "thorough" {
		maxTasks = 16
	}
	prog := genC19(ctx.Prog, maxTasks)
	ctx.Res.Desc = prog
	ctx.Res.ProgKey = jsonKey(prog)
	n := len(prog.Tasks)
	run := func(concurrent bool) ([][]string, *c19Classes, *simrt.Result) {
		logs := make([][]string, n)
		classes := &c19Classes{seen: map[string][]any{}}
		res := ctx.Sim(func(c *simrt.Config) {
			c.RandSeed = ctx.Seed | 1
			c.StepCap = 200000
			if concurrent {
				c.AccessPreempt = float64(prog.Preempt) / 1000
			} else {
				c.Strategy = simrt.StratLowest
			}
		}, func() {
			var wg simrt.WaitGroup
			for i := range prog.Tasks {
				i := i
				wg.Add(1)
				simrt.GoNamed(fmt.Sprintf("script%d", i), func() {
					defer wg.Done()
					logs[i] = c19Dispatch(prog.Tasks[i], classes)
				})
				if !concurrent {
					wg.Wait()
				}
			}
			wg.Wait()
		})
		return logs, classes, res
	}
	refLogs, _, refRes := run(false)
	logs, classes, res := run(true)
	ctx.Res.NonTrivial = res.Switches >= 3
	c19Compare(ctx, refLogs, logs, refRes, res, func(i int) string { return prog.Tasks[i].Type + " elements" })
	var keys []string
	for k := range classes.seen {
		keys = append(keys, k)
	}
	sort.Strings(keys)
	for _, k := range keys {
		cs := classes.seen[k]
		for _, c := range cs[1:] {
			if c != cs[0] {
				acc := k
				if j := strings.IndexByte(acc, '['); j >= 0 {
					acc = acc[:j]
				}
				ctx.Violate("C19", "class-identity", acc, fmt.Sprintf("concurrent calls of the class accessor %s returned different classes", k))
				break
			}
		}
	}
}

func (propC19) Meta() PropMeta {
	return PropMeta{
		Rule: "each case = 2-8 (thorough 2-16) tasks, each creating its own notation, collections, iterators, collators and sorters through the public constructors and running a generated script (1-6 operations drawn from the families build, mutate, search, sort, compare/rank, format incl. String()/FormatValue/module-level FormatValue, parse, iterate, class-accessor first use) over element types int, string, []int and any, collection sizes 0-3, 40 or 200, values nested up to nine levels for formatting, first use of up to sixteen further class types; in two cases of five the tasks instead each work on one of 22 instances that main derived from common bases through the library's own functions (set operations, Concatenate, Merge, Extract, GetValues, GetKeys, copies, iterators), there also with a structure element type holding a slice and a map; a run concentrates on one or two families and mostly one element type (swarm). The scripts are first executed serially in a fresh simulation (reference), then concurrently under one seeded schedule in which, additionally, reads/writes of variables already touched by two tasks are preemption points with a per-run probability (0, 2, 10 or 30 percent) and x++ / x op= y on such variables is split into load, preemption point, store. Every run starts from first-use state of the class registries (generated SimReset). Oracles: happens-before data-race detection over all tracked struct fields and package variables; every task's result log equals its serial reference; all callers of a class accessor for one type parameter got the identical class. Non-trivial = at least 3 context switches; distinct = distinct (program, schedule traces).",
		Assumptions: []string{
			"Go maps with more than one entry are kept out of the scripts (iteration order is not a seam)",
			"race oracle granularity is the struct field / package variable / captured local / slice element; accesses through reflection and inside the standard library are represented by the enclosing field",
			"ShuffleValues draws from a seed-derived stream keyed by the logical task, so serial and concurrent executions draw the same numbers",
		},
		Real: realComponents, Stub: stubComponents,
		FaultKinds: []string{"preemptions", "clock_jumps", "stall_steps", "access_stalls", "access_preemptions", "rmw_split_preemptions", "park_on_held_mutex", "park_on_waitgroup"},
	}
}

func init() { register(propC19{}) }

// ---- derived instances --------------------------------------------------------------------------
//
// Second program shape: main builds base collections and instances derived from
// them through the library's own functions (set algebra, Concatenate, Merge,
// Extract, GetValues, GetKeys, copy constructors, several iterators over one
// collection); every task then works on ONE of these instances, all distinct.
// Creation happens before the tasks are spawned, so any unordered conflicting
// access is state shared between distinct instances behind the caller's back.

type c19Inst struct {
	Name string
	Kind string // set list catalog iterator sequence
	obj  any
}

func c19Pool[T any](typ string, mk func(int) T) []c19Inst {
	notation := cdcn.Notation().Make()
	vals := func(n, a int) []T {
		out := make([]T, 0, n)
		for i := 0; i < n; i++ {
			out = append(out, mk((a*7+i*5)%11))
		}
		return out
	}
	sets := col.Set[T](notation)
	a := sets.MakeFromArray(vals(4, 1))
	b := sets.MakeFromArray(vals(4, 2))
	lists := col.List[T](notation)
	l1 := lists.MakeFromArray(vals(4, 3))
	l2 := lists.MakeFromArray(vals(3, 4))
	cats := col.Catalog[string, T](notation)
	c1 := cats.Make()
	c2 := cats.Make()
	for i, v := range vals(4, 5) {
		c1.SetValue(fmt.Sprintf("k%d", i), v)
		c2.SetValue(fmt.Sprintf("k%d", i+2), v)
	}
	keys := col.List[string](notation).MakeFromArray([]string{"k1", "k3", "k9"})
	return []c19Inst{
		{"set-operand-A", "set", a},
		{"set-operand-B", "set", b},
		{"set-And-result", "set", sets.And(a, b)},
		{"set-Or-result", "set", sets.Or(a, b)},
		{"set-Sans-result", "set", sets.Sans(a, b)},
		{"set-Xor-result", "set", sets.Xor(a, b)},
		{"set-copy-of-A", "set", sets.MakeFromSequence(a)},
		{"list-L1", "list", l1},
		{"list-L2", "list", l2},
		{"list-Concatenate-result", "list", lists.Concatenate(l1, l2)},
		{"list-copy-of-L1", "list", lists.MakeFromSequence(l1)},
		{"list-L1-GetValues", "sequence", l1.GetValues(1, 3)},
		{"set-A-GetValues", "sequence", a.GetValues(1, 2)},
		{"catalog-C1", "catalog", c1},
		{"catalog-C2", "catalog", c2},
		{"catalog-Merge-result", "catalog", cats.Merge(c1, c2)},
		{"catalog-Extract-result", "catalog", cats.Extract(c1, keys)},
		{"catalog-C1-GetKeys", "keys", c1.GetKeys()},
		{"iterator-1-over-L1", "iterator", l1.GetIterator()},
		{"iterator-2-over-L1", "iterator", l1.GetIterator()},
		{"stack-from-L1", "stack", col.Stack[T](notation).MakeFromSequence(l1)},
		{"array-from-L1", "array", col.Array[T](notation).MakeFromSequence(l1)},
	}
}

const c19PoolSize = 22

func c19UseInstance[T any](inst c19Inst, mk func(int) T, ops []c19Op) (log []string) {
	emit := func(name string, v any) { log = append(log, name+"="+fmt.Sprintf("%v", v)) }
	for _, op := range ops {
		func() {
			name := inst.Name
			simrt.SetLabel(name)
			defer func() {
				if r := recover(); r != nil {
					emit(name, "panic: "+firstLine(fmt.Sprint(r)))
				}
			}()
			switch inst.Kind {
			case "set":
				s := inst.obj.(col.SetLike[T])
				switch op.Code % 5 {
				case 0:
					emit(name+".contains", s.ContainsValue(mk(op.A)))
				case 1:
					emit(name+".index", s.GetIndex(mk(op.B)))
				case 2:
					s.AddValue(mk(op.A + op.B))
					emit(name+".add", s.AsArray())
				case 3:
					s.RemoveValue(mk(op.A))
					emit(name+".remove", s.AsArray())
				default:
					emit(name+".array", s.AsArray())
				}
			case "list":
				l := inst.obj.(col.ListLike[T])
				switch op.Code % 5 {
				case 0:
					emit(name+".index", l.GetIndex(mk(op.A)))
				case 1:
					l.AppendValue(mk(op.B))
					emit(name+".append", l.AsArray())
				case 2:
					l.SortValues()
					emit(name+".sort", l.AsArray())
				case 3:
					l.ReverseValues()
					emit(name+".reverse", l.AsArray())
				default:
					emit(name+".String", any(l).(fmt.Stringer).String())
				}
			case "catalog":
				c := inst.obj.(col.CatalogLike[string, T])
				switch op.Code % 4 {
				case 0:
					emit(name+".get", c.GetValue(fmt.Sprintf("k%d", op.A)))
				case 1:
					c.SetValue(fmt.Sprintf("k%d", op.A), mk(op.B))
					emit(name+".set", c.GetKeys().AsArray())
				case 2:
					c.SortValues()
					emit(name+".sort", c.GetKeys().AsArray())
				default:
					emit(name+".remove", c.RemoveValue(fmt.Sprintf("k%d", op.B)))
				}
			case "keys":
				k := inst.obj.(col.Sequential[string])
				emit(name+".array", k.AsArray())
			case "sequence":
				q := inst.obj.(col.Sequential[T])
				it := q.GetIterator()
				var walk []T
				for it.HasNext() {
					walk = append(walk, it.GetNext())
				}
				emit(name+".walk", []any{q.GetSize(), walk})
			case "iterator":
				it := inst.obj.(agent.IteratorLike[T])
				switch op.Code % 3 {
				case 0:
					emit(name+".next", []any{it.HasNext(), it.GetNext(), it.GetSlot()})
				case 1:
					emit(name+".previous", []any{it.HasPrevious(), it.GetPrevious(), it.GetSlot()})
				default:
					it.ToSlot(op.A - 2)
					emit(name+".toslot", it.GetSlot())
				}
			case "stack":
				st := inst.obj.(col.StackLike[T])
				if op.Code%2 == 0 && st.GetSize() > 0 {
					emit(name+".pop", st.RemoveTop())
				} else {
					emit(name+".array", st.AsArray())
				}
			case "array":
				ar := inst.obj.(col.ArrayLike[T])
				switch op.Code % 3 {
				case 0:
					ar.SortValues()
					emit(name+".sort", ar.AsArray())
				case 1:
					ar.SetValue(1+op.A%ar.GetSize(), mk(op.B))
					emit(name+".set", ar.AsArray())
				default:
					emit(name+".String", any(ar).(fmt.Stringer).String())
				}
			}
		}()
	}
	return log
}

type c19DerivedProg struct {
	Shape   string    `json:"shape"`
	Type    string    `json:"type"`
	Picks   []int     `json:"instances"`
	Names   []string  `json:"instance_names"`
	Ops     [][]c19Op `json:"ops"`
	Preempt int       `json:"access_preempt_permille"`
}

func genC19Derived(t *simrt.Tape) *c19DerivedProg {
	// composite element types are the ones that exercise shared helper state
	derivedTypes := []string{"int", "string", "slice", "any", "slice", "any", "struct", "struct"}
	p := &c19DerivedProg{Shape: "derived-instances", Type: derivedTypes[t.Choose(len(derivedTypes))]}
	n := t.Range(2, 5)
	used := map[int]bool{}
	// bias: instances that are related to each other (same family) meet often
	base := t.Choose(c19PoolSize)
	for len(p.Picks) < n {
		var k int
		if t.Choose(3) > 0 {
			k = (base + t.Choose(7)) % c19PoolSize
		} else {
			k = t.Choose(c19PoolSize)
		}
		for used[k] {
			k = (k + 1) % c19PoolSize
		}
		used[k] = true
		p.Picks = append(p.Picks, k)
		m := t.Range(1, 4)
		var ops []c19Op
		for i := 0; i < m; i++ {
			ops = append(ops, c19Op{Code: t.Choose(5), A: t.Choose(6), B: t.Choose(7)})
		}
		p.Ops = append(p.Ops, ops)
	}
	p.Preempt = []int{0, 20, 100, 300}[t.Choose(4)]
	return p
}

func c19DerivedTyped[T any](ctx *Ctx, p *c19DerivedProg, typ string, mk func(int) T) {
	n := len(p.Picks)
	run := func(concurrent bool) ([][]string, *simrt.Result) {
		logs := make([][]string, n)
		res := ctx.Sim(func(c *simrt.Config) {
			c.RandSeed = ctx.Seed | 1
			c.StepCap = 200000
			if concurrent {
				c.AccessPreempt = float64(p.Preempt) / 1000
			} else {
				c.Strategy = simrt.StratLowest
			}
		}, func() {
			pool := c19Pool[T](typ, mk)
			if len(p.Names) == 0 {
				for _, k := range p.Picks {
					p.Names = append(p.Names, pool[k].Name)
				}
			}
			var wg simrt.WaitGroup
			for i, k := range p.Picks {
				i, inst := i, pool[k]
				wg.Add(1)
				simrt.GoNamed(fmt.Sprintf("user%d", i), func() {
					defer wg.Done()
					logs[i] = c19UseInstance[T](inst, mk, p.Ops[i])
				})
				if !concurrent {
					wg.Wait()
				}
			}
			wg.Wait()
		})
		return logs, res
	}
	refLogs, refRes := run(false)
	logs, res := run(true)
	ctx.Res.NonTrivial = res.Switches >= 3
	c19Compare(ctx, refLogs, logs, refRes, res, func(i int) string { return p.Names[i] })
}

// c19Compare applies the race / termination / serial-equivalence oracles.
func c19Compare(ctx *Ctx, refLogs, logs [][]string, refRes, res *simrt.Result, who func(int) string) {
	for _, r := range append(append([]simrt.Race{}, refRes.Races...), res.Races...) {
		sig := r.Sig
		if r.LabelA != "" || r.LabelB != "" {
			la, lb := r.LabelA, r.LabelB
			if la > lb {
				la, lb = lb, la
			}
			sig += "@" + la + "/" + lb
		}
		ctx.Violate("C19", "race", sig, fmt.Sprintf("%s race on %s between task %d (%s) and task %d (%s), each working on its own instance: %s vs %s", r.Kind, r.Var, r.TaskA, r.LabelA, r.TaskB, r.LabelB, r.SiteA, r.SiteB))
	}
	for _, rr := range []*simrt.Result{refRes, res} {
		if rr.End != "done" {
			ctx.Violate("C19", "no-termination", rr.End, "scripts on disjoint instances did not terminate: "+rr.String())
			return
		}
		for _, t := range rr.Tasks {
			if t.Panicked {
				ctx.Violate("C19", "task-panic", normMsg(t.PanicStr), fmt.Sprintf("task %s panicked: %s\n%s", t.Name, t.PanicStr, t.Stack))
			}
		}
	}
	for i := range logs {
		a, b := refLogs[i], logs[i]
		for k := 0; k < len(a) || k < len(b); k++ {
			var x, y string
			if k < len(a) {
				x = a[k]
			}
			if k < len(b) {
				y = b[k]
			}
			if x != y {
				opn := x
				if opn == "" {
					opn = y
				}
				if j := strings.IndexByte(opn, '='); j >= 0 {
					opn = opn[:j]
				}
				ctx.Violate("C19", "result-differs-from-serial", opn, fmt.Sprintf("task %d (%s): running alone gave %q, running next to the other tasks gave %q", i, who(i), x, y))
				break
			}
		}
	}
}

// c19Point: a structure element type whose fields hold a slice and a map: the
// collator descends into them (its depth counter) although the element type
// itself is "flat".  Few distinct X values, so that ranking has to go on to Tags.
type c19Point struct {
	X    int
	Tags []int
	Attr map[string]int
}

func runC19Derived(ctx *Ctx, p *c19DerivedProg) {
	switch p.Type {
	case "struct":
		c19DerivedTyped[c19Point](ctx, p, "struct", func(i int) c19Point {
			return c19Point{X: i % 2, Tags: []int{i % 3, i, i + 1}, Attr: map[string]int{"a": i % 2, "b": i}}
		})
	case "int":
		c19DerivedTyped[int](ctx, p, "int", func(i int) int { return i*3 - 7 })
	case "string":
		c19DerivedTyped[string](ctx, p, "string", func(i int) string { return fmt.Sprintf("s%c%d", 'a'+rune(i%5), i) })
	case "slice":
		c19DerivedTyped[[]int](ctx, p, "[]int", func(i int) []int {
			out := make([]int, i%4)
			for k := range out {
				out[k] = (i + k*2) % 5
			}
			return out
		})
	default:
		c19DerivedTyped[any](ctx, p, "any", func(i int) any {
			switch i % 4 {
			case 0:
				return i
			case 1:
				return fmt.Sprintf("v%d", i)
			case 2:
				return []int{i, i + 1}
			default:
				return float64(i) / 2
			}
		})
	}
}
