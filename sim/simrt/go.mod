module verif.local/simrt

go 1.23
